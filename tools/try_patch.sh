#!/bin/bash
# tools/try_patch.sh <patch.diff> <Cnn> [tier]   run one check against a scratch copy of /repo with the patch applied
set -u
here="$(cd "$(dirname "$0")/.." && pwd)"
d=$(mktemp -d /var/tmp/vtry.XXXXXX)
trap 'rm -rf "$d"' EXIT
rsync -a --exclude .git --exclude .coverage /repo/ "$d/"
(cd "$d" && patch -p1 -s --no-backup-if-mismatch < "$1") || { echo "patch failed"; exit 2; }
VERIF_REPO_SRC="$d/src" VERIF_OUT_DIR="$d/out" "$here/check" "$2" "${3:-quick}" | grep -E "signature|detail|property=" | cut -c1-260 | head -${LINES_MAX:-8}
