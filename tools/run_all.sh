#!/bin/bash
# Developer aid: run every registered check at one tier and print a summary line per property.
tier="${1:-quick}"
cd "$(dirname "$(readlink -f "$0")")/.." || exit 2
rc=0
for id in $(/venv/bin/python -c "import json;print(' '.join(c['property_id'] for c in json.load(open('MANIFEST.json'))['checks']))"); do
  out=$(./check "$id" "$tier" 2>&1); code=$?
  echo "$id exit=$code $(echo "$out" | grep -E '^property=' | head -1)"
  if [ $code -ne 0 ]; then echo "$out" | grep -E 'VIOLATION|signature|detail|HARNESS|KNOWN' | head -8; rc=1; fi
done
exit $rc
