#!/venv/bin/python
"""Re-run the recorded checks against every stored seeded change (sensitivity regression).

    tools/seeded_rerun.py [id ...] [--tier quick]

For each /verif/seeded/<id>/: scratch copy of /repo, apply patch.diff, run the checks named in meta.json against it
(VERIF_REPO_SRC), print caught/MISSED. Scratch copies live under /var/tmp and are removed. meta.json gets `last_rerun`.
"""
import json, multiprocessing, os, shutil, subprocess, sys, tempfile

VERIF = os.path.dirname(os.path.dirname(os.path.abspath(__file__)))


def _tmpdir(scratch: str) -> str:
    """A temp directory inside the scratch copy: whatever the code under test or a demo leaves in $TMPDIR goes away with it."""
    path = os.path.join(scratch, "tmp")
    os.makedirs(path, exist_ok=True)
    return path


def one(args):
    sid, tier = args
    base = os.path.join(VERIF, "seeded", sid)
    meta = json.load(open(os.path.join(base, "meta.json")))
    scratch = tempfile.mkdtemp(prefix=f"vseedr-{sid}-", dir="/var/tmp")
    try:
        subprocess.run(["rsync", "-a", "--exclude", ".git", "--exclude", ".coverage", "/repo/", scratch + "/"], check=True)
        res = subprocess.run(["patch", "-p1", "--no-backup-if-mismatch", "-s", "-i", os.path.join(base, "patch.diff")], cwd=scratch, capture_output=True, text=True)
        if res.returncode != 0:
            return sid, "STALE", {}
        env = dict(os.environ, TMPDIR=_tmpdir(scratch), VERIF_REPO_SRC=os.path.join(scratch, "src"), VERIF_OUT_DIR=os.path.join(scratch, "out"), VERIF_PROCS="4")
        out = {}
        for chk in meta.get("checks", {meta["property"]: 0}):
            proc = subprocess.run(["timeout", "1500", os.path.join(VERIF, "check"), chk, tier], cwd=VERIF, env=env, capture_output=True, text=True)
            sigs = [l.strip()[len("signature: "):] for l in proc.stdout.splitlines() if l.strip().startswith("signature:")]
            out[chk] = {"exit": proc.returncode, "signatures": sigs[:4]}
        status = "caught" if any(v["exit"] == 1 for v in out.values()) else ("ERROR" if any(v["exit"] == 2 for v in out.values()) else "MISSED")
        meta["last_rerun"] = {"tier": tier, "status": status, "checks": out}
        json.dump(meta, open(os.path.join(base, "meta.json"), "w"), indent=1)
        return sid, status, out
    finally:
        shutil.rmtree(scratch, ignore_errors=True)


def main(argv):
    tier = "quick"
    if "--tier" in argv:
        tier = argv[argv.index("--tier") + 1]
    wanted = [a for a in argv if not a.startswith("--") and a not in ("quick", "thorough")]
    ids = sorted(d for d in os.listdir(os.path.join(VERIF, "seeded")) if not wanted or d in wanted)
    with multiprocessing.Pool(4) as pool:
        results = pool.map(one, [(i, tier) for i in ids], chunksize=1)
    bad = 0
    for sid, status, out in results:
        if status != "caught":
            bad += 1
        print(f"{status:7} {sid:7} " + "; ".join(f"{k}: {v['signatures'][:2]}" for k, v in out.items()))
    print(f"{len(results) - bad}/{len(results)} caught")
    return 1 if bad else 0


if __name__ == "__main__":
    sys.exit(main(sys.argv[1:]))
