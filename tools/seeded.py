#!/venv/bin/python
"""Confirm a seeded breaking change from a sub-agent and run the checks against it.

    tools/seeded.py <out-dir> <letter> <property> [--checks C07,C19] [--tier quick] [--needs "text"] [--what "text"]

Confirms in a scratch copy of /repo (under /var/tmp, removed afterwards): the patch applies, the repository's test
suite passes with it, the demonstration fails with it and passes without it. Then runs the property's check(s)
against the patched copy (VERIF_REPO_SRC) and records everything in /verif/seeded/<property>-<letter>/.
"""
from __future__ import annotations

import argparse
import json
import os
import shutil
import subprocess
import sys
import tempfile

VERIF = os.path.dirname(os.path.dirname(os.path.abspath(__file__)))


def _tmpdir(scratch: str) -> str:
    """A temp directory inside the scratch copy: whatever the code under test or a demo leaves in $TMPDIR goes away with it."""
    path = os.path.join(scratch, "tmp")
    os.makedirs(path, exist_ok=True)
    return path


def sh(cmd, **kw):
    return subprocess.run(cmd, capture_output=True, text=True, **kw)


def main() -> int:
    ap = argparse.ArgumentParser()
    ap.add_argument("out_dir")
    ap.add_argument("letter")
    ap.add_argument("prop")
    ap.add_argument("--checks", default=None)
    ap.add_argument("--tier", default="quick")
    ap.add_argument("--needs", default="")
    ap.add_argument("--what", default="")
    ap.add_argument("--keep-anyway", action="store_true")
    args = ap.parse_args()
    patch = os.path.join(args.out_dir, f"{args.letter}.diff")
    demo = os.path.join(args.out_dir, f"demo_{args.letter}.py")
    checks = args.checks.split(",") if args.checks else [args.prop]
    scratch = tempfile.mkdtemp(prefix=f"vseed-{args.prop}{args.letter}-", dir="/var/tmp")
    meta = {"property": args.prop, "id": f"{args.prop}-{args.letter}", "what": args.what, "needs": args.needs, "ran": [], "confirmed": {}}
    try:
        sh(["rsync", "-a", "--exclude", ".git", "--exclude", ".coverage", "/repo/", scratch + "/"], check=True)
        res = sh(["patch", "-p1", "--no-backup-if-mismatch", "-i", patch], cwd=scratch)
        meta["confirmed"]["patch_applies"] = res.returncode == 0
        if res.returncode != 0:
            print("patch does not apply:", res.stdout[-400:], res.stderr[-400:])
            return 2
        env = dict(os.environ, TMPDIR=_tmpdir(scratch), PYTHONPATH=os.path.join(scratch, "src"), PYTHONDONTWRITEBYTECODE="1")
        res = sh(["/venv/bin/python", "-m", "pytest", "-q", "-p", "no:cacheprovider", "--no-cov", "--timeout=120"], cwd=scratch, env=env)
        tail = (res.stdout.strip().splitlines() or [""])[-1]
        meta["confirmed"]["tests_pass_with_change"] = res.returncode == 0
        meta["ran"].append(f"cd <scratch> && PYTHONPATH=<scratch>/src /venv/bin/python -m pytest -q --no-cov  -> {tail}")
        res_with = sh(["/venv/bin/python", "-B", demo], env=env, cwd=scratch)
        res_without = sh(["/venv/bin/python", "-B", demo], env=dict(os.environ, TMPDIR=_tmpdir(scratch), PYTHONPATH="/repo/src", PYTHONDONTWRITEBYTECODE="1"), cwd=scratch)
        meta["confirmed"]["demo_fails_with_change"] = res_with.returncode != 0
        meta["confirmed"]["demo_passes_without_change"] = res_without.returncode == 0
        meta["demo_output_with_change"] = (res_with.stdout + res_with.stderr).strip()[-500:]
        meta["ran"].append(f"demo with change -> exit {res_with.returncode}; demo on /repo/src -> exit {res_without.returncode}")
        out_dir = os.path.join(scratch, "verif-out")
        env2 = dict(os.environ, TMPDIR=_tmpdir(scratch), VERIF_REPO_SRC=os.path.join(scratch, "src"), VERIF_OUT_DIR=out_dir)
        meta["checks"] = {}
        for chk in checks:
            res = sh([os.path.join(VERIF, "check"), chk, args.tier], cwd=VERIF, env=env2)
            sigs = [l.strip()[len("signature: "):] for l in res.stdout.splitlines() if l.strip().startswith("signature:")]
            details = [l.strip()[:300] for l in res.stdout.splitlines() if l.strip().startswith("detail:")]
            meta["checks"][chk] = {"tier": args.tier, "exit": res.returncode, "signatures": sigs[:5], "first_detail": details[:1]}
            meta["ran"].append(f"VERIF_REPO_SRC=<scratch>/src ./check {chk} {args.tier} -> exit {res.returncode}")
            if res.returncode == 2:
                meta["checks"][chk]["stderr"] = res.stderr[-600:]
        meta["caught"] = any(c["exit"] == 1 for c in meta["checks"].values())
        ok = all(meta["confirmed"].values())
        print(json.dumps({k: meta[k] for k in ("id", "confirmed", "checks", "caught")}, indent=1))
        if ok or args.keep_anyway:
            dest = os.path.join(VERIF, "seeded", meta["id"])
            os.makedirs(dest, exist_ok=True)
            shutil.copy(patch, os.path.join(dest, "patch.diff"))
            shutil.copy(demo, os.path.join(dest, "demo.py"))
            notes = os.path.join(args.out_dir, "notes.md")
            if os.path.exists(notes):
                shutil.copy(notes, os.path.join(dest, "agent_notes.md"))
            with open(os.path.join(dest, "meta.json"), "w") as fil:
                json.dump(meta, fil, indent=1)
        else:
            print("NOT KEPT: confirmation failed")
        return 0 if meta["caught"] else 1
    finally:
        shutil.rmtree(scratch, ignore_errors=True)


if __name__ == "__main__":
    sys.exit(main())
