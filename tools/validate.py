#!/opt/veriftools/pyvenv/bin/python
"""Validate MANIFEST.json and evidence/*.json against the task schemas (developer aid)."""
import glob, json, sys
import jsonschema

ok = True
man = json.load(open("/verif/MANIFEST.json"))
try:
    jsonschema.validate(man, json.load(open("/root/.vp/MANIFEST.schema.json")))
    print("MANIFEST ok:", len(man["checks"]), "checks,", len(man.get("not_applicable", [])), "not applicable")
except jsonschema.ValidationError as err:
    ok = False
    print("MANIFEST INVALID:", err.message)
schema = json.load(open("/root/.vp/EVIDENCE.schema.json"))
for path in sorted(glob.glob("/verif/evidence/*.json")):
    try:
        doc = json.load(open(path))
        jsonschema.validate(doc, schema)
        cov = doc["coverage"]
        print(f"{path}: ok tier={doc['tier']} evals={cov.get('evaluations')} nontrivial={cov.get('distinct_nontrivial')} viol={doc.get('violations')} wall={doc['wall_s']}")
    except Exception as err:
        ok = False
        print(path, "INVALID:", getattr(err, "message", err))
ids = {c["property_id"] for c in man["checks"]} | {n["property_id"] for n in man.get("not_applicable", [])}
props = [json.loads(l)["id"] for l in open("/verif/properties.jsonl")]
missing = [p for p in props if p not in ids]
if missing:
    ok = False
    print("properties neither claimed nor not_applicable:", missing)
sys.exit(0 if ok else 1)
