#!/venv/bin/python
"""Regenerate MANIFEST.json from the property modules that exist (developer aid, not a check)."""
import importlib, json, os, sys
sys.path.insert(0, "/verif"); sys.path.insert(0, "/repo/src")
PENDING_REASON = "check not built yet in this session; will be claimed once its module lands"
NOTES = {}
props = [json.loads(l) for l in open("/verif/properties.jsonl")]
checks, na = [], []
for p in props:
    pid = p["id"]
    if not os.path.exists(f"/verif/vf/props/{pid.lower()}.py"):
        na.append({"property_id": pid, "reason": PENDING_REASON}); continue
    mod = importlib.import_module(f"vf.props.{pid.lower()}")
    checks.append({
        "property_id": pid,
        "quick_cmd": f"./check {pid} quick",
        "thorough_cmd": f"./check {pid} thorough",
        "evidence_file": f"/verif/evidence/{pid}.json",
        "replay_cmd_template": f"./check {pid} --replay {{path}}",
        "engine": getattr(mod, "ENGINE", "hypothesis-generated-search"),
        "level_claimed": {"category": mod.LEVEL, "text": mod.LEVEL_TEXT if hasattr(mod, "LEVEL_TEXT") else mod.RULE, "design_ref": f"DESIGN.md section {mod.DESIGN_REF}"},
        "level_note": "; ".join(getattr(mod, "ASSUMPTIONS", [])) or "none",
        "technique": getattr(mod, "TECHNIQUE", "property-based testing: generated inputs against an explicit oracle"),
    })
man = {
    "version": 1,
    "setup_cmd": "./check --setup",
    "hooks": {
        "guard": "AIOMYSENSORS_VERIF",
        "enable": "no source hooks are needed: checks import aiomysensors from /repo/src (PYTHONPATH) and observe public API only; the variable is exported by ./check but nothing in /repo reads it",
        "baseline_off_cmd": "cd /repo && /venv/bin/python -m pytest -ra -q -p no:cacheprovider --timeout=900 --continue-on-collection-errors",
        "source_commits": [],
        "add_only": True,
    },
    "engines": [
        {"name": "hypothesis-generated-search", "path": "/verif/vf/runner.py", "serves_properties": [c["property_id"] for c in checks],
         "kind_free_text": "Hypothesis 6.168 strategies (seeded by VERIF_SEED, sharded over processes), bounded exhaustive enumeration where the space is small, collect-bucket-shrink, JSON replay files"},
    ],
    "checks": checks,
    "not_applicable": na,
    "notes": "All checks: ./check <id> <quick|thorough>; exit 0 ok, 1 VIOLATION line, 2 harness error/inconclusive. Known findings: /verif/KNOWN_FINDINGS.txt.",
}
json.dump(man, open("/verif/MANIFEST.json", "w"), indent=1)
print("checks:", [c["property_id"] for c in checks], "pending:", [n["property_id"] for n in na])
