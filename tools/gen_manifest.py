#!/venv/bin/python
"""Regenerate MANIFEST.json from the property modules that exist (developer aid, not a check)."""
import importlib, json, os, sys
sys.path.insert(0, "/verif"); sys.path.insert(0, "/repo/src")
PENDING_REASON = "check not built yet in this session; will be claimed once its module lands"
TECH = {
 "C01": ("round-trip and reference-formatter oracle over messages built by construction (Hypothesis) + enumerated warm-schema matrix",
         "Bounded generated search: every case checks encode == explicit formatter, decode(encode(m)) == m with exact types, re-encode law, and the same through Gateway.send/listen; no proof - confidence comes from ~4k (quick) / 200k (thorough) constructed messages biased to ';' payloads, boundary ids and huge types, and from mutants/seeded changes that it catches."),
 "C02": ("acceptor reference model (written from the statement) vs MessageSchema.load and Gateway.listen over a field grammar, single-character edits and an enumerated per-field product",
         "Generated search plus an exhaustive product of per-field class representatives for 0-7 fields x versions; verdict classes (accept / reject / don't-care for odd integer spellings) keep the oracle sound."),
 "C03": ("stateful history search for non-library exceptions with a recovery probe; exhaustive hostile-payload dictionary x every message type; byte streams on real asyncio stream objects; coverage-guided atheris campaign (thorough)",
         "Exploration: any exception not derived from AIOMySensorsError escaping Gateway.listen / StreamTransport.read is a violation; after each library error a probe line must still be processed. Dictionary part is exhaustive, the rest sampled."),
 "C04": ("model-based testing: reference controller in lock-step with a real Gateway over small-alphabet histories (Hypothesis) + exhaustive histories up to length 3/4 + queue-vs-line-by-line differential",
         "Exploration with an exhaustive core (all histories <= 4 over 15 lines x 5 versions in the thorough tier): outcome class, error attributes, yielded fields and a deep registry snapshot after every step."),
 "C05": ("exhaustive version-string grid and type-gate enumeration against spec tables spelled in the harness + generated report histories with behavioural probes of the rules in force",
         "The mapping grid (1050 strings x 3 delivery paths) and the type gate (every type -3..40 per version) are enumerated completely; histories, sessions and listener modes are sampled."),
 "C06": ("model-based testing of the multiset of writes per received line (reference controller), time reply checked under generated fixed-offset time zones with a clock shim",
         "Exploration: per step, writes other than presentation requests must equal the specified reactions plus the version-query rule; sampled histories over registry states, metric flag, zones, listener modes."),
 "C07": ("model-based testing of the sleep buffer through writes only (reference controller), episode-structured and free histories with weighted operations",
         "Exploration: parked state is never read, only inferred from what is written at sends and wakes; sampled sequential histories over 3 nodes x 2 children x 2 types and 5 versions."),
 "C08": ("fault enumeration: complete product of parked sets x wake sequences x failing write-attempt subsets, plus every schedule x fault position of small racing configurations",
         "Thorough tier enumerates the whole bounded fault space (100k runs) and is exhaustive inside the stated bounds; invariant oracle over the run: reported, nothing lost, nothing repeated, nothing released to the wrong node."),
 "C09": ("schedule search: stateless depth-first enumeration of every interleaving at transport-write suspension points for enumerated/generated configurations; history-invariant oracle on the write log",
         "Exhaustive over all schedules of every configuration with <= 4 parked commands and <= 3 senders (2.6M schedules in the thorough tier); sound for suspension points at Transport.write (see assumptions)."),
 "C10": ("model-based testing of presentation-request writes (outstanding-set model) with injected write faults on the requests",
         "Exploration: only type-19 writes are compared, per step, against the episode model; sampled histories over 3 nodes, 5 versions, fault subsets, listener modes."),
 "C11": ("generated and enumerated registry shapes x id-request sequences against a freshness/range/registration-order oracle (checked inside the transport at write time)",
         "Exploration with exhaustive families ({k}, {1..k}, {0..k} for every k, brim-filling runs); the allocation policy itself is not fixed, any fresh id in range is accepted."),
 "C12": ("three-outcome oracle for every generated send (all commands, states, buffering flags), send histories with debts settled at wakes, and all schedules of small send-vs-flush races",
         "Exploration plus an enumerated command x type x destination x buffering matrix per version; a send may end only in write-now, held-until-wake (verified at the wake) or a library error."),
 "C13": ("round-trip oracle on real files: registries reached by generated message histories and directly constructed ones, legacy-layout equivalence, multi-MiB files, ASCII-locale child process",
         "Exploration: save then load into an empty registry must reproduce every listed attribute; sampled, with enumerated size and locale cases."),
 "C14": ("generated file contents (prefixes, structural JSON mutations, arbitrary JSON, raw bytes, deep/long documents, special paths) against the 'only PersistenceReadError' oracle; atheris campaign (thorough)",
         "Exploration: any other exception type from Persistence.load is a violation, bucketed by type and innermost package frame; enumerated single-field mutations of both layouts, sampled otherwise."),
 "C15": ("crash-point enumeration: fork a child per file-system operation (and per partial write) of a save, kill it with os._exit, load what is left; over generated (old, new) registry pairs",
         "Fault enumeration, complete over the operations a save performs on the scratch directory for each generated pair; the known in-place-truncation finding is excluded by signature and enumeration continues behind it."),
 "C16": ("fault/time enumeration on a deterministic virtual-time event loop: transport kinds x faults x initial files x exit moments k x time jumps T, second sessions; generated T/k beyond",
         "Fault enumeration: the k/fault/kind/file product is enumerated (3.4k runs quick); virtual time makes the 15-minute cadence and every exit moment relative to the saver reachable deterministically."),
 "C17": ("reference line splitter vs StreamTransport.read over generated byte streams x chunkings x read schedules on real asyncio stream objects; socketpair write check; enumerated connect/link faults",
         "Exploration with an enumerated fault matrix (factories x exception classes x link-loss kinds); reads are compared one by one with the reference splitter."),
 "C18": ("stateful testing of MQTTClient against a fake broker built on aiomqtt's real MessagesIterator/Message, on a virtual-time loop (a blocked read is detected, not timed out)",
         "Exploration: publish arguments, subscription coverage (own '+' matcher), arrival-order delivery, echo law, error surfacing, reconnect sessions; sampled histories with enumerated prefix x node cases."),
 "C19": ("differential testing: two real gateways pinned to an (older, newer) version pair fed the same generated history; step-by-step comparison of outcome, writes, registry",
         "Exploration over all 10 ordered version pairs; the alphabet is restricted to the older table and to the statement's exclusions, so any difference is a violation."),
}
NOTES = {}
SWEEP_NOTE = " + the shared environment sweep (one event of every kind x transport kind / logging / warnings / bystander gateway / registry file / eager tasks, also under python -O) and the hidden-switch sweep"
for _pid in ("C03", "C04", "C05", "C06", "C07", "C10", "C11", "C12"):
    TECH[_pid] = (TECH[_pid][0] + SWEEP_NOTE, TECH[_pid][1])
TECH["C19"] = (TECH["C19"][0] + " + tour events under DEBUG / strict warnings / real transports and the hidden-switch sweep per pair", TECH["C19"][1])
TECH["C13"] = (TECH["C13"][0] + "; round trips also under python -O", TECH["C13"][1])
TECH["C14"] = (TECH["C14"][0] + "; special paths and mutated contents also under python -O and with warnings as errors", TECH["C14"][1])
props = [json.loads(l) for l in open("/verif/properties.jsonl")]
checks, na = [], []
for p in props:
    pid = p["id"]
    if not os.path.exists(f"/verif/vf/props/{pid.lower()}.py"):
        na.append({"property_id": pid, "reason": PENDING_REASON}); continue
    mod = importlib.import_module(f"vf.props.{pid.lower()}")
    checks.append({
        "property_id": pid,
        "quick_cmd": f"./check {pid} quick",
        "thorough_cmd": f"./check {pid} thorough",
        "evidence_file": f"/verif/evidence/{pid}.json",
        "replay_cmd_template": f"./check {pid} --replay {{path}}",
        "engine": getattr(mod, "ENGINE", "hypothesis-generated-search"),
        "level_claimed": {"category": mod.LEVEL, "text": TECH[pid][1], "design_ref": f"DESIGN.md section {mod.DESIGN_REF} and 8"},
        "level_note": "; ".join(getattr(mod, "ASSUMPTIONS", [])) or "none",
        "technique": TECH[pid][0],
    })
man = {
    "version": 1,
    "setup_cmd": "./check --setup",
    "hooks": {
        "guard": "AIOMYSENSORS_VERIF",
        "enable": "no source hooks are needed: checks import aiomysensors from /repo/src (PYTHONPATH) and observe public API only; the variable is exported by ./check but nothing in /repo reads it",
        "baseline_off_cmd": "cd /repo && /venv/bin/python -m pytest -ra -q -p no:cacheprovider --timeout=900 --continue-on-collection-errors",
        "source_commits": [],
        "add_only": True,
    },
    "engines": [
        {"name": "hypothesis-generated-search", "path": "/verif/vf/runner.py", "serves_properties": [c["property_id"] for c in checks],
         "kind_free_text": "Hypothesis 6.168 strategies (seeded by VERIF_SEED, sharded over processes), bounded exhaustive enumeration where the space is small, collect-bucket-shrink, JSON replay files"},
        {"name": "atheris-campaign", "path": "/verif/vf/fuzzrun.py", "serves_properties": ["C03", "C14"],
         "kind_free_text": "atheris 3.1 (libFuzzer) targets fuzz/c03_stream.py and fuzz/c14_file.py with the property oracle inside the target; thorough tier only; crashing inputs are replayed through run_case without atheris"},
        {"name": "schedule-and-fault-enumeration", "path": "/verif/vf/props/c09.py", "serves_properties": ["C08", "C09", "C12", "C03"],
         "kind_free_text": "gated transport + stateless DFS over scheduler choices (start task / release write / fail write)"},
        {"name": "virtual-time-loop", "path": "/verif/vf/vloop.py", "serves_properties": ["C16", "C18"],
         "kind_free_text": "asyncio SelectorEventLoop whose clock jumps to the next timer, inline executor; deterministic"},
    ],
    "checks": checks,
    "not_applicable": na,
    "notes": "All checks: ./check <id> <quick|thorough>; exit 0 ok, 1 VIOLATION line, 2 harness error/inconclusive. Known findings: /verif/KNOWN_FINDINGS.txt.",
}
json.dump(man, open("/verif/MANIFEST.json", "w"), indent=1)
print("checks:", [c["property_id"] for c in checks], "pending:", [n["property_id"] for n in na])
