#!/venv/bin/python
"""Prepare a round of independent seeded-change sub-agents.

    tools/seed_round.py <round-number> <two new letters, e.g. KL>

Writes /tmp/seed<N>-<Cnn>.txt (the ONLY thing a sub-agent gets: the property text, what was tried before, its worktree)
and creates the scratch worktrees /tmp/w<N>-<Cnn> of /repo (remove them with `git -C /repo worktree remove --force`).
"""
import json
import os
import subprocess
import sys

SPECIAL = {
    "C15": "NOTE: the library as it stands already violates this property in one known way (save() opens the live file with mode 'w' and writes in place, so a crash between the truncating open and the end of the write leaves an empty file or a strict prefix of the new text). Your changes must introduce a NEW way for a crash during save to lose the previously saved registry or leave damage, distinguishable from that known one and from the listed ones. The tests mock aiofiles.threadpool.sync_open. The demo simulates a crash (e.g. forks a child that os._exit()s at a chosen file operation) and must not count the known in-place truncation/prefix states.",
    "C16": "Demos: a Gateway with a persistence file in a temp dir and a small fake Transport subclass is fine; patch the interval or the clock instead of waiting 15 minutes.",
    "C17": "Demos: e.g. a StreamTransport subclass (or TCPTransport/SerialTransport with the connection factory patched) on an in-memory asyncio.StreamReader and a real or stub writer, a socketpair or a pty.",
    "C18": "Demos: an MQTTTransport subclass implementing the documented hooks _connect/_disconnect/_publish/_subscribe and calling _receive/_receive_error, or MQTTClient with aiomysensors.transport.mqtt.AsyncioClient replaced by a fake. No real broker or network.",
    "C19": "Demos: two Gateway objects with a small fake Transport pinned to two protocol versions via gateway.protocol_version = 'x.y' and fed the same messages. Respect the statement's exclusions.",
    "C09": "Demos: a custom Transport whose write waits on events so the interleaving is deterministic; no sleeps.",
}


def single(rnd: str, a: str) -> int:
    """One change per sub-agent, labelled <a>; same brief otherwise."""
    import glob
    for raw in open("/verif/properties.jsonl"):
        d = json.loads(raw)
        pid = d["id"]
        prev = []
        for path in sorted(glob.glob(f"/verif/seeded/{pid}-*/meta.json")):
            m = json.load(open(path))
            prev.append(f"- {m['what']} (needs: {m['needs']})")
        wt = f"/tmp/w{rnd}-{pid}"
        text = f"""You are helping test a verification framework for the Python library aiomysensors (asyncio client for MySensors gateways). Work ONLY inside the git worktree {wt} (source: {wt}/src/aiomysensors, tests: {wt}/tests). Do NOT read or touch /verif or /repo.

PROPERTY {pid}: {d['title']}

STATEMENT: {d['statement']}

QUANTIFIED OVER: {d['quantifier']['text']}

ALREADY TRIED BY OTHERS (all of these are detected by now; the detector evidently covers these dimensions well) - find a dimension or mechanism NOT on this list:
""" + "\n".join(prev) + f"""

YOUR JOB: devise ONE NEW, realistic code change (call it {a}) to the library source that BREAKS the property AS STATED while the library still imports and the ENTIRE existing test suite still passes. Think about which hidden dimension the earlier attempts have NOT exercised (read them carefully, list the dimensions they cover, then pick something orthogonal), while remaining a genuine violation inside the statement's domain and its quantifier - a reviewer must agree that the statement as written is violated, not merely some stricter reading of it. The change must need something specific to manifest (a particular interleaving, a fault at a particular point, a multi-step sequence of operations, an unusual input, or two cooperating sites that each look fine alone), not something ordinary use would expose at once. It must look like a plausible maintainer edit (refactoring slip, 'optimisation', wrong boundary, misplaced line, over-eager validation, caching, a new 'feature'); prefer mechanisms that arise naturally from Python/asyncio/marshmallow/aiofiles/aiomqtt/awesomeversion semantics or from the interaction of two code sites, over magic constants.
{SPECIAL.get(pid, '')}

Run tests with:  cd {wt} && PYTHONPATH={wt}/src /venv/bin/python -m pytest -q -p no:cacheprovider --no-cov -x --timeout=120   (all 273 must pass with the change applied).

Write into {wt}/out/ (create it): {a}.diff (`git diff` of the change, files under src/ only, must `git apply` on a clean checkout); demo_{a}.py (standalone; run as `PYTHONPATH=<src dir> /venv/bin/python demo_{a}.py`; uses only public behaviour of the library; prints OK and exits 0 on the clean worktree; exits 1 and prints what went wrong with the change applied; fast, deterministic, no network, no real long waits); notes.md (what it breaks, which clause of the statement, what it needs to manifest, and that you ran tests-with-change = pass, demo-with-change = fail, demo-without-change = pass).

You have about 12 minutes: pick an idea quickly, do not over-explore. Leave the worktree source clean at the end (`git checkout -- src`; git status shows only out/). Report a two-line summary of {a}: what it breaks and what it needs to manifest.
"""
        open(f"/tmp/seed{rnd}-{pid}.txt", "w").write(text)
        if not os.path.isdir(wt):
            subprocess.run(["git", "-C", "/repo", "worktree", "add", "-q", "--detach", wt, "HEAD"], check=True)
    print("ok")
    return 0


def main() -> int:
    rnd, letters = sys.argv[1], sys.argv[2]
    if "," in letters or len(letters) != 2:  # rounds after the alphabet ran out: one change per agent, any label (e.g. AA)
        return single(rnd, letters.split(",")[0])
    a, b = letters[0], letters[1]
    for raw in open("/verif/properties.jsonl"):
        d = json.loads(raw)
        pid = d["id"]
        prev = []
        for letter in "ABCDEFGHIJKLMNOPQRSTUVWXYZ":
            path = f"/verif/seeded/{pid}-{letter}/meta.json"
            if letter in letters or not os.path.exists(path):
                continue
            m = json.load(open(path))
            prev.append(f"- {m['what']} (needs: {m['needs']})")
        wt = f"/tmp/w{rnd}-{pid}"
        text = f"""You are helping test a verification framework for the Python library aiomysensors (asyncio client for MySensors gateways). Work ONLY inside the git worktree {wt} (source: {wt}/src/aiomysensors, tests: {wt}/tests). Do NOT read or touch /verif or /repo.

PROPERTY {pid}: {d['title']}

STATEMENT: {d['statement']}

QUANTIFIED OVER: {d['quantifier']['text']}

ALREADY TRIED BY OTHERS (all of these are detected by now; the detector evidently covers these dimensions well) - find a dimension or mechanism NOT on this list:
""" + "\n".join(prev) + f"""

YOUR JOB: devise TWO NEW, independent, realistic code changes (call them {a} and {b}) to the library source that each BREAK the property AS STATED while the library still imports and the ENTIRE existing test suite still passes. Think about which hidden dimension the earlier attempts have NOT exercised (read them carefully, list the dimensions they cover, then pick something orthogonal), while remaining a genuine violation inside the statement's domain and its quantifier - a reviewer must agree that the statement as written is violated, not merely some stricter reading of it. Each change must look like a plausible maintainer edit (refactoring slip, 'optimisation', wrong boundary, misplaced line, over-eager validation, caching, a new 'feature'); prefer mechanisms that arise naturally from Python/asyncio/marshmallow/aiofiles/aiomqtt/awesomeversion semantics or from the interaction of two code sites, over magic constants.
{SPECIAL.get(pid, '')}

Run tests with:  cd {wt} && PYTHONPATH={wt}/src /venv/bin/python -m pytest -q -p no:cacheprovider --no-cov -x --timeout=120   (all 273 must pass with each change applied alone).

For each change write into {wt}/out/ (create it): {a}.diff / {b}.diff (`git diff` of only that change, files under src/ only, must `git apply` on a clean checkout); demo_{a}.py / demo_{b}.py (standalone; run as `PYTHONPATH=<src dir> /venv/bin/python demo_{a}.py`; uses only public behaviour of the library; prints OK and exits 0 on the clean worktree; exits 1 and prints what went wrong with the change applied; fast, deterministic, no network, no real long waits); notes.md (per change: what it breaks, which clause of the statement, what it needs to manifest, and that you ran tests-with-change = pass, demo-with-change = fail, demo-without-change = pass).

Work one change at a time and `git checkout -- src` in between; leave the worktree source clean at the end (git status shows only out/). Report a short summary of {a} and {b}.
"""
        open(f"/tmp/seed{rnd}-{pid}.txt", "w").write(text)
        if not os.path.isdir(wt):
            subprocess.run(["git", "-C", "/repo", "worktree", "add", "-q", "--detach", wt, "HEAD"], check=True)
    print("ok")
    return 0


if __name__ == "__main__":
    sys.exit(main())
