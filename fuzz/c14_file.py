#!/venv/bin/python
"""atheris target for C14: the bytes of the persistence file, oracle inside the target."""
import sys

import atheris

with atheris.instrument_imports(include=["aiomysensors", "marshmallow"]):
    import aiomysensors  # noqa: F401
    import aiomysensors.persistence  # noqa: F401
    import aiomysensors.model.node  # noqa: F401

from vf.props import c14  # noqa: E402


def TestOneInput(data: bytes) -> None:
    out = c14.run_case({"kind": "content", "origin": "atheris", "data": data.decode("latin-1")})
    if not out.ok:
        raise RuntimeError(f"C14 violated: {out.sig}: {out.detail[:300]}")


if __name__ == "__main__":
    atheris.Setup(sys.argv, TestOneInput)
    atheris.Fuzz()
