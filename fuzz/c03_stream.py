#!/venv/bin/python
"""atheris target for C03: raw bytes on a stream transport, oracle inside the target.

Input layout: byte 0 picks the protocol version (or unknown), byte 1 the registry preset,
the rest is the byte stream handed to an in-memory asyncio.StreamReader. Gateway state is
rebuilt on every iteration. A non-library exception from Gateway.listen (or a lost probe
line) raises, which libFuzzer records as a crash artifact; the artifact is replayed by the
check through vf.props.c03.run_case({"kind": "raw", ...}) without atheris.
"""
import sys

import atheris

with atheris.instrument_imports(include=["aiomysensors", "marshmallow", "awesomeversion"]):
    import aiomysensors  # noqa: F401
    import aiomysensors.gateway  # noqa: F401
    import aiomysensors.transport  # noqa: F401

from vf.props import c03  # noqa: E402


def TestOneInput(data: bytes) -> None:
    case = c03.raw_case_from_bytes(data)
    out = c03.run_case(case)
    if not out.ok:
        raise RuntimeError(f"C03 violated: {out.sig}: {out.detail[:300]}")


if __name__ == "__main__":
    atheris.Setup(sys.argv, TestOneInput)
    atheris.Fuzz()
