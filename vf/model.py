"""Reference controller: predicts outcome, writes and registry for any history.

Written from the statements of C04-C07, C10-C12 and the MySensors serial API, not
from the handlers. `rx()` computes a prediction without changing the model;
`commit()` applies it, resolving the few places the statements leave open from
what was observed (which id was handed out, whether an odd-but-parsable payload
was accepted, whether a presentation-request write succeeded).
"""

from __future__ import annotations

import copy
import dataclasses
import re
from typing import Any

from vf.codec_ref import (
    I_BATTERY,
    I_CONFIG,
    I_DISCOVER,
    I_DISCOVER_RESPONSE,
    I_GATEWAY_READY,
    I_HEARTBEAT_RESPONSE,
    I_ID_REQUEST,
    I_ID_RESPONSE,
    I_LOG,
    I_PRE_SLEEP,
    I_PRESENTATION,
    I_REBOOT,
    I_SKETCH_NAME,
    I_SKETCH_VERSION,
    I_TIME,
    I_VERSION,
    internal_supported,
    ref_protocol,
    ref_verdict,
    stream_supported,
)

VERSION_QUERY = "0;255;3;0;2;\n"
_DECIMAL = re.compile(r"-?[0-9]+(\.[0-9]+)?\Z", re.ASCII)
_CANON_INT = re.compile(r"-?(0|[1-9][0-9]*)\Z", re.ASCII)


def new_node(node_id: int, node_type: int = 17, version: str = "1.4") -> dict:
    return {
        "node_id": node_id,
        "node_type": node_type,
        "protocol_version": version,
        "sketch_name": "",
        "sketch_version": "",
        "battery_level": 0,
        "heartbeat": 0,
        "sleeping": False,
        "children": {},
    }


def battery_class(payload: str) -> tuple[str, int | None]:
    """definite value / reject (not a number) / either (parses, but odd, a tie or out of 0-100)."""
    if _DECIMAL.match(payload) and len(payload) < 30:
        value = float(payload)
        frac = abs(value) % 1
        if abs(frac - 0.5) < 1e-9:
            return "either", None
        level = int(round(value))
        if 0 <= level <= 100:
            return "definite", level
        return "either", None
    try:
        float(payload)
    except ValueError:
        return "reject", None
    return "either", None


def heartbeat_class(payload: str) -> tuple[str, int | None]:
    if _CANON_INT.match(payload) and payload != "-0" and len(payload) < 300:
        return "definite", int(payload)
    try:
        int(payload)
    except ValueError:
        return "reject", None
    return "either", None


@dataclasses.dataclass
class Pred:
    """Prediction for one received line."""

    line: str
    outcomes: tuple[str, ...] = ("ok",)  # acceptable outcome classes, first = preferred
    fields: list | None = None  # decoded fields when yielded
    err_node: int | None = None
    err_child: int | None = None
    reactions: list[str] = dataclasses.field(default_factory=list)
    time_reply: tuple[int, int] | None = None
    id_request: tuple[int, int] | None = None
    flush_node: int | None = None
    presreq_node: int | None = None  # node a request goes to if the outcome is missing_* (2.x, not outstanding)
    presreq_either: bool = False  # the episode state of that node is unspecified: a request may or may not be written
    missing_node_for_episode: int | None = None
    mutate: Any = None  # callable(model, observed) applied on ok
    either: bool = False  # ok-or-library-error; registry effect adopted from observation
    version_exempt: bool = False  # internal log / gateway ready: never followed by a version query
    note: str = ""


class RefController:
    """Reference model of the controller."""

    def __init__(self, version: str | None, *, metric: bool = True, registry: dict | None = None) -> None:
        self.version = version
        self.rules = (ref_protocol(version) if version else None) or "1.4"
        self.metric = metric
        self.nodes: dict[str, dict] = copy.deepcopy(registry) if registry else {}
        for key, node in self.nodes.items():
            base = new_node(int(key))
            base.update(node)
            for ckey, child in base["children"].items():
                full = {"child_id": int(ckey), "child_type": 0, "description": "", "values": {}}
                full.update(child)
                base["children"][ckey] = full
            self.nodes[key] = base
        self.reboot: set[int] = {int(k) for k, n in self.nodes.items() if n.pop("reboot", False)}
        self.parked: dict[tuple[int, int, int], str] = {}
        self.outstanding: set[int] = set()
        # nodes whose "request outstanding" state the statement does not define: they presented themselves (or were
        # rejected) while 1.x rules were in force, where no episode bookkeeping exists
        self.marker_unknown: set[int] = set()
        self.adopted_placeholders: set[int] = set()

    # -- helpers -----------------------------------------------------------
    @property
    def is2x(self) -> bool:
        return self.rules in ("2.0", "2.1", "2.2")

    def known(self, node: int) -> bool:
        return str(node) in self.nodes

    def snapshot(self) -> dict:
        return copy.deepcopy(self.nodes)

    def parked_for(self, node: int) -> list[str]:
        return [line for (n, _c, _t), line in self.parked.items() if n == node]

    # -- application sends (set commands) ------------------------------------
    def send_set(self, fields: list, buffer: bool) -> list[str]:
        """Return the lines written now; park otherwise."""
        node, child, _cmd, _ack, mtype, payload = fields
        line = ";".join(str(x) for x in fields[:5]) + ";" + payload + "\n"
        info = self.nodes.get(str(node))
        if buffer and info is not None and info["sleeping"]:
            self.parked[(node, child, mtype)] = line
            return []
        return [line]

    # -- received lines ------------------------------------------------------
    def rx(self, line: str) -> Pred:
        ref = ref_verdict(line)
        if ref["verdict"] == "reject":
            return Pred(line, outcomes=("invalid",))
        if ref["verdict"] == "dontcare":
            return Pred(line, outcomes=("invalid", "ok", "liberr"), either=True, note="grey-spelling")
        node, child, command, ack, mtype = ref["values"]
        payload = ref["rest"].rstrip()
        fields = [node, child, command, ack, mtype, payload]
        pred = Pred(line, fields=fields)
        if command == 0:
            self._presentation(pred, node, child, mtype, payload)
        elif command == 1:
            self._set(pred, node, child, mtype, payload)
        elif command == 2:
            self._req(pred, node, child, mtype)
        elif command == 3:
            self._internal(pred, node, child, mtype, payload)
        else:
            self._stream(pred, node, mtype)
        if pred.outcomes[0] in ("missing_node", "missing_child") or "missing_node" in pred.outcomes:
            if self.is2x and node not in self.outstanding:
                pred.presreq_node = node
            if self.is2x and node in self.marker_unknown:
                pred.presreq_either = True
            pred.missing_node_for_episode = node
        return pred

    def _missing(self, pred: Pred, node: int, child: int | None = None) -> bool:
        if not self.known(node):
            pred.outcomes = ("missing_node",)
            pred.err_node = node
            return True
        if child is not None and str(child) not in self.nodes[str(node)]["children"]:
            pred.outcomes = ("missing_child",)
            pred.err_child = child
            return True
        return False

    def _presentation(self, pred: Pred, node: int, child: int, mtype: int, payload: str) -> None:
        if child == 255:
            version_ok = ref_protocol(payload) is not None
            if node == 0 and not version_ok:
                pred.outcomes = ("ok", "liberr")
                pred.either = True
                pred.note = "gateway-presentation-with-odd-version"

            def mutate(model: "RefController", observed: dict) -> None:
                model.nodes[str(node)] = new_node(node, mtype, payload)
                model.reboot.discard(node)
                if model.is2x:
                    model.outstanding.discard(node)
                    model.marker_unknown.discard(node)
                elif node in model.outstanding:
                    model.marker_unknown.add(node)
                model.adopted_placeholders.discard(node)
                if node == 0:
                    model._set_version(payload, observed)

            pred.mutate = mutate
            return
        if self._missing(pred, node):
            return

        def mutate(model: "RefController", observed: dict) -> None:
            model.nodes[str(node)]["children"][str(child)] = {
                "child_id": child,
                "child_type": mtype,
                "description": payload,
                "values": {},
            }

        pred.mutate = mutate

    def _set(self, pred: Pred, node: int, child: int, mtype: int, payload: str) -> None:
        if self._missing(pred, node, child):
            return
        if node in self.reboot:
            pred.reactions.append(f"{node};255;3;0;{I_REBOOT};\n")

        def mutate(model: "RefController", observed: dict) -> None:
            model.nodes[str(node)]["children"][str(child)]["values"][str(mtype)] = payload

        pred.mutate = mutate

    def _req(self, pred: Pred, node: int, child: int, mtype: int) -> None:
        if self._missing(pred, node, child):
            return
        value = self.nodes[str(node)]["children"][str(child)]["values"].get(str(mtype))
        if value is not None:
            pred.reactions.append(f"{node};{child};1;0;{mtype};{value}\n")

    def _stream(self, pred: Pred, node: int, mtype: int) -> None:
        unsupported = not stream_supported(self.rules, mtype)
        if not self.known(node):
            pred.outcomes = ("missing_node", "unsupported") if unsupported else ("missing_node",)
            pred.err_node = node
            return
        if unsupported:
            pred.outcomes = ("unsupported",)

    def _internal(self, pred: Pred, node: int, child: int, mtype: int, payload: str) -> None:
        if mtype in (I_LOG, I_GATEWAY_READY):
            pred.version_exempt = True
        if not internal_supported(self.rules, mtype):
            pred.outcomes = ("unsupported",)
            return
        if mtype == I_BATTERY:
            if self._missing(pred, node):
                return
            cls, level = battery_class(payload)
            if cls == "reject":
                pred.outcomes = ("liberr",)
                return
            if cls == "either":
                pred.outcomes = ("ok", "liberr")
                pred.either = True

            def mutate(model: "RefController", observed: dict) -> None:
                if level is not None:
                    model.nodes[str(node)]["battery_level"] = level
                else:
                    model._adopt(node, "battery_level", observed)

            pred.mutate = mutate
        elif mtype == I_TIME:
            pred.time_reply = (node, child)
        elif mtype == I_VERSION:
            if ref_protocol(payload) is None:
                pred.outcomes = ("ok", "liberr")
                pred.either = True

            def mutate(model: "RefController", observed: dict) -> None:
                model._set_version(payload, observed)

            pred.mutate = mutate
        elif mtype == I_ID_REQUEST:
            pred.id_request = (node, child)
            pred.outcomes = ("ok", "too_many")
        elif mtype == I_CONFIG:
            pred.reactions.append(f"{node};{child};3;0;{I_CONFIG};{'M' if self.metric else 'I'}\n")
        elif mtype in (I_SKETCH_NAME, I_SKETCH_VERSION):
            if self._missing(pred, node):
                return
            attr = "sketch_name" if mtype == I_SKETCH_NAME else "sketch_version"

            def mutate(model: "RefController", observed: dict) -> None:
                model.nodes[str(node)][attr] = payload

            pred.mutate = mutate
        elif mtype == I_GATEWAY_READY:
            if self.is2x:
                pred.reactions.append(f"255;255;3;0;{I_DISCOVER};\n")
        elif mtype == I_DISCOVER_RESPONSE and self.is2x:
            self._missing(pred, node)
        elif mtype == I_HEARTBEAT_RESPONSE and self.is2x:
            if self._missing(pred, node):
                return
            cls, beat = heartbeat_class(payload)
            if cls == "reject":
                pred.outcomes = ("liberr",)
                return
            if cls == "either":
                pred.outcomes = ("ok", "liberr")
                pred.either = True
            wakes = self.rules in ("2.0", "2.1")
            if wakes:
                pred.flush_node = node

            def mutate(model: "RefController", observed: dict) -> None:
                if beat is not None:
                    model.nodes[str(node)]["heartbeat"] = beat
                else:
                    model._adopt(node, "heartbeat", observed)
                if wakes:
                    model.nodes[str(node)]["sleeping"] = True
                    model._release(node)

            pred.mutate = mutate
        elif mtype == I_PRE_SLEEP and self.rules == "2.2":
            if self._missing(pred, node):
                return
            pred.flush_node = node

            def mutate(model: "RefController", observed: dict) -> None:
                model.nodes[str(node)]["sleeping"] = True
                model._release(node)

            pred.mutate = mutate

    # -- state changes -------------------------------------------------------
    def _release(self, node: int) -> None:
        for key in [k for k in self.parked if k[0] == node]:
            del self.parked[key]

    def _adopt(self, node: int, attr: str, observed: dict) -> None:
        snap = observed.get("snapshot") or {}
        if str(node) in snap:
            self.nodes[str(node)][attr] = snap[str(node)][attr]

    def _set_version(self, payload: str, observed: dict) -> None:
        rules = ref_protocol(payload)
        if rules is not None:
            self.version, self.rules = payload, rules
        else:
            # not a release string: the statement does not say which rules apply; adopt
            self.version = observed.get("protocol_version", self.version)
            self.rules = observed.get("rules", self.rules)

    def version_query_expected(self, pred: Pred, outcome: str) -> bool:
        """After commit: is exactly one version query owed for this step?"""
        if pred.fields is None:
            return False  # the line was not decoded (a handler-level InvalidMessageError still counts as decoded)
        return self.version is None and not pred.version_exempt

    def commit(self, pred: Pred, outcome: str, observed: dict | None = None) -> None:
        """Apply the step. observed keys: snapshot, assigned_id, presreq_ok, protocol_version, rules."""
        observed = observed or {}
        if outcome == "ok":
            if pred.id_request is not None:
                new_id = observed.get("assigned_id")
                if new_id is not None:
                    self.nodes[str(new_id)] = new_node(new_id)
                    self.adopted_placeholders.add(new_id)
                    snap = observed.get("snapshot") or {}
                    if str(new_id) in snap:
                        # type / version text of a placeholder is unspecified: adopt
                        self.nodes[str(new_id)]["node_type"] = snap[str(new_id)]["node_type"]
                        self.nodes[str(new_id)]["protocol_version"] = snap[str(new_id)]["protocol_version"]
            elif pred.note == "grey-spelling":
                self.nodes = copy.deepcopy(observed.get("snapshot", self.nodes))
            elif pred.mutate is not None:
                pred.mutate(self, observed)
        elif outcome in ("missing_node", "missing_child"):
            if pred.presreq_either:
                node = pred.missing_node_for_episode
                self.marker_unknown.discard(node)
                self.outstanding.add(node)  # whether it was written now or earlier, a request is outstanding from here on
            elif pred.presreq_node is not None and observed.get("presreq_ok", True):
                self.outstanding.add(pred.presreq_node)
        elif pred.either and pred.note in ("gateway-presentation-with-odd-version", "grey-spelling"):
            # a rejected gateway presentation may or may not have registered node 0: adopt
            snap = observed.get("snapshot")
            if snap is not None:
                self.nodes = copy.deepcopy(snap)
                sender = pred.fields[0] if pred.fields else None
                if pred.note == "gateway-presentation-with-odd-version" and sender in self.outstanding and self.is2x:
                    if str(sender) in snap:
                        # the refused presentation did register the node: it has presented itself, its next rejected message is asked about again
                        self.outstanding.discard(sender)
                        self.marker_unknown.discard(sender)
                    else:
                        self.marker_unknown.add(sender)  # not registered: whether the refused presentation ends the episode is unspecified
