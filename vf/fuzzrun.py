"""Run atheris campaigns as sub-processes and fold what they found into the check's statistics."""

from __future__ import annotations

import glob
import os
import re
import shutil
import subprocess
import sys
import tempfile

from vf.runner import VERIF, Stats


def available() -> bool:
    try:
        import atheris  # noqa: F401
    except Exception:  # noqa: BLE001
        return False
    return True


def campaign(target: str, seed: int, runs: int, seeds: list[bytes], dict_tokens: list[bytes], max_len: int, jobs: int) -> tuple[list[bytes], dict]:
    """Run `jobs` independent libFuzzer processes; half start from an empty corpus, half from `seeds`.

    Returns (crashing inputs, info)."""
    work = tempfile.mkdtemp(prefix="vf-fuzz-", dir="/var/tmp")
    info = {"runs_requested": runs * jobs, "runs_done": 0, "jobs": jobs, "crashes": 0, "exec_per_s": [], "corpus_sizes": []}
    crashes: list[bytes] = []
    try:
        dict_path = os.path.join(work, "tokens.dict")
        with open(dict_path, "w", encoding="ascii") as fil:
            for tok in dict_tokens:
                fil.write('"' + "".join(f"\\x{b:02x}" for b in tok) + '"\n')
        procs = []
        for job in range(jobs):
            corpus = os.path.join(work, f"corpus{job}")
            arts = os.path.join(work, f"artifacts{job}") + "/"
            os.makedirs(corpus)
            os.makedirs(arts)
            if job % 2 == 1:
                for idx, blob in enumerate(seeds):
                    with open(os.path.join(corpus, f"seed{idx}"), "wb") as fil:
                        fil.write(blob)
            cmd = [
                sys.executable, "-B", os.path.join(VERIF, "fuzz", target), corpus,
                f"-runs={runs}", f"-seed={seed * 100 + job + 1}", f"-max_len={max_len}", f"-artifact_prefix={arts}",
                f"-dict={dict_path}", "-print_final_stats=1", "-timeout=30", "-rss_limit_mb=4096",
            ]
            procs.append((job, corpus, arts, subprocess.Popen(cmd, cwd=work, stdout=subprocess.PIPE, stderr=subprocess.STDOUT, text=True)))
        for job, corpus, arts, proc in procs:
            out, _ = proc.communicate()
            done = re.findall(r"stat::number_of_executed_units:\s*(\d+)", out)
            if done:
                info["runs_done"] += int(done[-1])
            speed = re.findall(r"stat::average_exec_per_sec:\s*(\d+)", out)
            if speed:
                info["exec_per_s"].append(int(speed[-1]))
            info["corpus_sizes"].append(len(os.listdir(corpus)))
            for path in sorted(glob.glob(arts + "*")):
                with open(path, "rb") as fil:
                    crashes.append(fil.read())
            if proc.returncode not in (0, 1, 77) and not glob.glob(arts + "*"):
                info.setdefault("abnormal_exits", []).append({"job": job, "code": proc.returncode, "tail": out[-400:]})
        info["crashes"] = len(crashes)
    finally:
        shutil.rmtree(work, ignore_errors=True)
    return crashes, info


def fold(prop, crashes: list[bytes], info: dict, to_case) -> tuple[Stats, dict]:
    stats = Stats()
    stats.evaluations += info["runs_done"]
    stats.engines["atheris"] = info["runs_done"]
    for blob in crashes:
        case = to_case(blob)
        out = prop.run_case(case)
        stats.record(case, out, "atheris-replay")
    return stats, {"atheris": info}
