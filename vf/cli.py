"""Command line dispatch: `python -m vf.cli <Cnn> <quick|thorough>` / `<Cnn> --replay <file>`."""

from __future__ import annotations

import sys
import traceback

from vf import runner


def main(argv: list[str]) -> int:
    if len(argv) < 2:
        print("usage: check <Cnn> <quick|thorough> | check <Cnn> --replay <file>", file=sys.stderr)
        return 2
    prop_id = argv[0].upper()
    try:
        if argv[1] == "--replay":
            return runner.run_replay(prop_id, argv[2])
        if argv[1] not in ("quick", "thorough"):
            print(f"unknown tier {argv[1]!r}", file=sys.stderr)
            return 2
        return runner.run_check(prop_id, argv[1])
    except SystemExit:
        raise
    except BaseException:  # noqa: BLE001 - anything here is a harness failure, never a verdict
        print(f"HARNESS-ERROR: property={prop_id}\n{traceback.format_exc()}", file=sys.stderr)
        return 2


if __name__ == "__main__":
    sys.exit(main(sys.argv[1:]))
