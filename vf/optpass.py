"""Run a property's `opt_cases` under an interpreter started with -O: `python -O -m vf.optpass <Cnn> <tier> <out.pickle>`.

An application may run with PYTHONOPTIMIZE / -O (asserts stripped, __debug__ false); the properties hold there too.
The harness itself uses no assert statements. Every case carries `python_O: true`, so a replay restarts the same way.
"""

from __future__ import annotations

import pickle
import sys

from vf import runner


def main(argv: list[str]) -> int:
    prop_id, tier, out = argv
    if not sys.flags.optimize:
        print("vf.optpass must run under python -O", file=sys.stderr)
        return 2
    prop = runner.load_prop(prop_id)
    stats = runner.Stats()
    for case in prop.opt_cases(tier):
        case = {**case, "python_O": True}
        stats.record(case, runner._timed(prop, case), "python -O")
    with open(out, "wb") as fil:
        pickle.dump(stats, fil)
    return 0


if __name__ == "__main__":
    sys.exit(main(sys.argv[1:]))
