"""Shared driver: generated search, enumeration, sharding, bucketing, shrinking, evidence.

A property module (vf/props/cNN.py) provides

    ID, LEVEL, RULE, ASSUMPTIONS, DESIGN_REF
    budgets(tier)         -> {"examples": int, "shards": int}
    strategy(tier)        -> hypothesis strategy of JSON-able cases   (optional)
    enumerate_cases(tier) -> iterable of JSON-able cases              (optional)
    run_case(case)        -> Outcome   (pure function of the case and the tree)
    DELETABLE             -> names of dict keys whose list values may lose items when shrinking

run_case never lets an exception of the code under test escape: whatever escapes it
is a bug of the harness and ends the run with exit code 2 (never a VIOLATION).
"""

from __future__ import annotations

import dataclasses
import hashlib
import importlib
import itertools
import json
import multiprocessing
import os
import sys
import time
import traceback
from typing import Any

VERIF = os.path.dirname(os.path.dirname(os.path.abspath(__file__)))
KNOWN_FILE = os.path.join(VERIF, "KNOWN_FINDINGS.txt")
# evidence/ and replays/ go to /verif unless redirected (mutant runner, scratch experiments)
OUT_DIR = os.environ.get("VERIF_OUT_DIR") or VERIF
MAX_SAMPLES = 8


@dataclasses.dataclass
class Outcome:
    """Result of one executed case."""

    ok: bool = True
    sig: str | None = None  # root-cause signature of the violation
    detail: str = ""
    nontrivial: bool = False
    classes: tuple[str, ...] = ()
    extra_evals: int = 0  # executions inside the case beyond the first (e.g. forks)


def fail(sig: str, detail: str, *, nontrivial: bool = True, classes: tuple[str, ...] = ()) -> Outcome:
    return Outcome(ok=False, sig=sig, detail=detail, nontrivial=nontrivial, classes=classes)


class HarnessError(Exception):
    """The machinery itself is broken (never a verdict about the property)."""


def seed_value() -> int:
    try:
        return int(os.environ.get("VERIF_SEED", "1"))
    except ValueError:
        return 1


def case_hash(case: Any) -> str:
    blob = json.dumps(case, sort_keys=True, ensure_ascii=True, default=str).encode()
    return hashlib.blake2b(blob, digest_size=8).hexdigest()


def load_prop(prop_id: str):
    return importlib.import_module(f"vf.props.{prop_id.lower()}")


# ---------------------------------------------------------------------------
# known findings


def load_known(prop_id: str) -> dict[str, str]:
    """Return {signature: text} of the `known:` lines for this property."""
    known: dict[str, str] = {}
    try:
        with open(KNOWN_FILE, encoding="utf-8") as fil:
            for raw in fil:
                line = raw.strip()
                if not line.startswith("known:"):
                    continue
                parts = line.split(None, 3)
                if len(parts) < 3:
                    continue
                if parts[1] != f"property={prop_id}":
                    continue
                if not parts[2].startswith("signature="):
                    continue
                known[parts[2][len("signature=") :]] = parts[3] if len(parts) > 3 else ""
    except FileNotFoundError:
        pass
    return known


# ---------------------------------------------------------------------------
# statistics gathered per shard and merged


class Stats:
    def __init__(self) -> None:
        self.evaluations = 0
        self.cases = 0
        self.nontrivial: set[str] = set()
        self.distinct: set[str] = set()
        self.classes: dict[str, int] = {}
        self.samples: list[Any] = []
        self.failures: dict[str, dict[str, Any]] = {}
        self.engines: dict[str, int] = {}

    def record(self, case: Any, out: Outcome, engine: str) -> None:
        self.cases += 1
        self.evaluations += 1 + out.extra_evals
        self.engines[engine] = self.engines.get(engine, 0) + 1
        digest = case_hash(case)
        self.distinct.add(digest)
        if out.nontrivial:
            if digest not in self.nontrivial and len(self.samples) < MAX_SAMPLES:
                self.samples.append(case)
            self.nontrivial.add(digest)
        for cls in out.classes:
            self.classes[cls] = self.classes.get(cls, 0) + 1
        if not out.ok:
            sig = out.sig or "unspecified"
            size = len(json.dumps(case, default=str))
            cur = self.failures.get(sig)
            if cur is None:
                self.failures[sig] = {"case": case, "detail": out.detail, "count": 1, "size": size}
            else:
                cur["count"] += 1
                if size < cur["size"]:
                    cur.update(case=case, detail=out.detail, size=size)

    def merge(self, other: "Stats") -> None:
        self.evaluations += other.evaluations
        self.cases += other.cases
        self.nontrivial |= other.nontrivial
        self.distinct |= other.distinct
        for key, val in other.classes.items():
            self.classes[key] = self.classes.get(key, 0) + val
        for key, val in other.engines.items():
            self.engines[key] = self.engines.get(key, 0) + val
        for smp in other.samples:
            if len(self.samples) < MAX_SAMPLES:
                self.samples.append(smp)
        for sig, info in other.failures.items():
            cur = self.failures.get(sig)
            if cur is None:
                self.failures[sig] = dict(info)
            else:
                cur["count"] += info["count"]
                if info["size"] < cur["size"]:
                    cur.update(case=info["case"], detail=info["detail"], size=info["size"])


# ---------------------------------------------------------------------------
# workers

CASE_TIME_LIMIT = int(os.environ.get("VERIF_CASE_SECONDS", "600"))


class CaseTimeout(Exception):
    """One case ran longer than CASE_TIME_LIMIT seconds: the harness gives up on the whole check (exit 2, inconclusive)."""


def _timed(prop, case):
    """run_case under a wall-clock alarm: code under test that blocks for ever must not hang the check (it is no verdict either)."""
    import signal

    def on_alarm(_signum, _frame):
        raise CaseTimeout(f"a case exceeded {CASE_TIME_LIMIT} s: {str(case)[:300]}")

    try:
        previous = signal.signal(signal.SIGALRM, on_alarm)
    except ValueError:  # not in the main thread
        return prop.run_case(case)
    signal.alarm(CASE_TIME_LIMIT)
    try:
        return prop.run_case(case)
    finally:
        signal.alarm(0)
        signal.signal(signal.SIGALRM, previous)


def _hypothesis_shard(args: tuple[str, str, int, int, int]) -> Stats:
    prop_id, tier, seed, shard, examples = args
    import hypothesis
    from hypothesis import HealthCheck, Phase, Verbosity, given, settings

    prop = load_prop(prop_id)
    stats = Stats()
    strat = prop.strategy(tier)

    @hypothesis.seed(seed * 1000 + shard)
    @settings(
        max_examples=examples,
        database=None,
        deadline=None,
        derandomize=False,
        report_multiple_bugs=False,
        phases=[Phase.generate],
        suppress_health_check=[HealthCheck.too_slow, HealthCheck.data_too_large],
        verbosity=Verbosity.quiet,
    )
    @given(strat)
    def search(case: Any) -> None:
        out = _timed(prop, case)
        stats.record(case, out, "hypothesis")

    search()
    return stats


def _enum_shard(args: tuple[str, str, int, int]) -> Stats:
    prop_id, tier, shard, nshards = args
    prop = load_prop(prop_id)
    stats = Stats()
    for case in itertools.islice(prop.enumerate_cases(tier), shard, None, nshards):
        out = _timed(prop, case)
        stats.record(case, out, "enumeration")
    return stats


def _opt_shard(args: tuple[str, str]) -> Stats:
    """The property's `opt_cases` executed by an interpreter started with -O (asserts stripped, __debug__ false), in a subprocess."""
    import pickle
    import subprocess

    prop_id, tier = args
    os.makedirs(OUT_DIR, exist_ok=True)
    out = os.path.join(OUT_DIR, f".optpass-{prop_id}-{os.getpid()}.pickle")
    proc = subprocess.run([sys.executable, "-O", "-B", "-m", "vf.optpass", prop_id, tier, out], capture_output=True, text=True, timeout=3 * 3600)
    if proc.returncode != 0:
        raise RuntimeError(f"the pass under `python -O` failed (exit {proc.returncode}):\n{proc.stderr[-4000:]}")
    try:
        with open(out, "rb") as fil:
            return pickle.load(fil)
    finally:
        if os.path.exists(out):
            os.unlink(out)


def _guard(fn_name: str, args: tuple) -> tuple[str, Any]:
    try:
        return "ok", globals()[fn_name](args)
    except BaseException:  # noqa: BLE001 - reported as harness error by the parent
        return "error", traceback.format_exc()


def _guard_star(packed: tuple[str, tuple]) -> tuple[str, Any]:
    return _guard(*packed)


# ---------------------------------------------------------------------------
# shrinking (independent of Hypothesis, works for enumerated and fuzzed cases too)


def _paths(node: Any, deletable: tuple[str, ...], strkeys: tuple[str, ...], prefix: tuple = (), under: str | None = None, in_op: bool = False):
    """Shrink points: lists under a deletable key; strings inside their items (not the op name) or under strkeys."""
    if isinstance(node, dict):
        for key, val in node.items():
            yield from _paths(val, deletable, strkeys, prefix + (key,), key, in_op)
    elif isinstance(node, list):
        top = under in deletable and not in_op
        if top:
            yield ("list", prefix)
        for idx, val in enumerate(node):
            if in_op and idx == 0 and isinstance(val, str):
                continue  # op name
            yield from _paths(val, deletable, strkeys, prefix + (idx,), under, in_op or top)
    elif isinstance(node, str):
        if in_op or under in strkeys:
            yield ("str", prefix)


def _get(node: Any, path: tuple) -> Any:
    for key in path:
        node = node[key]
    return node


def _set(node: Any, path: tuple, value: Any) -> Any:
    clone = json.loads(json.dumps(node))
    if not path:
        return value
    cur = clone
    for key in path[:-1]:
        cur = cur[key]
    cur[path[-1]] = value
    return clone


def shrink_case(prop: Any, case: Any, sig: str, budget: int = 300, seconds: float = 60.0) -> Any:
    """Greedy structural minimisation keeping the same failure signature."""
    deletable = tuple(getattr(prop, "DELETABLE", ("ops",)))
    strkeys = tuple(getattr(prop, "SHRINK_STRINGS", ()))
    start = time.monotonic()
    spent = 0

    def still(cand: Any) -> bool:
        nonlocal spent
        spent += 1
        try:
            out = prop.run_case(cand)
        except Exception:  # noqa: BLE001 - candidate left the case grammar
            return False
        return (not out.ok) and out.sig == sig

    try:
        case = json.loads(json.dumps(case))
    except (TypeError, ValueError):
        return case
    progress = True
    while progress and spent < budget and time.monotonic() - start < seconds:
        progress = False
        for kind, path in list(_paths(case, deletable, strkeys)):
            if spent >= budget or time.monotonic() - start >= seconds:
                break
            cur = _get(case, path)
            if kind == "list":
                chunk = max(len(cur) // 2, 1)
                while chunk >= 1 and spent < budget:
                    idx = 0
                    while idx < len(cur) and spent < budget:
                        cand_list = cur[:idx] + cur[idx + chunk :]
                        cand = _set(case, path, cand_list)
                        if still(cand):
                            case, cur = cand, cand_list
                            progress = True
                        else:
                            idx += chunk
                    if chunk == 1:
                        break
                    chunk //= 2
            elif kind == "str" and len(cur) > 0:
                for cand_str in ("", cur[: len(cur) // 2], cur[1:], cur[:-1]):
                    if cand_str == cur or spent >= budget:
                        continue
                    cand = _set(case, path, cand_str)
                    if still(cand):
                        case = cand
                        progress = True
                        break
            if progress:
                break  # paths are stale now: recompute
    return case


# ---------------------------------------------------------------------------
# main entry


def _write_json(path: str, obj: Any) -> None:
    os.makedirs(os.path.dirname(path), exist_ok=True)
    tmp = f"{path}.tmp{os.getpid()}"
    with open(tmp, "w", encoding="utf-8") as fil:
        json.dump(obj, fil, indent=1, sort_keys=True, default=str, ensure_ascii=True)
        fil.write("\n")
    os.replace(tmp, path)


def run_check(prop_id: str, tier: str) -> int:
    started = time.monotonic()
    prop = load_prop(prop_id)
    seed = seed_value()
    budget = prop.budgets(tier)
    nshards = int(budget.get("shards", 4))
    examples = int(budget.get("examples", 0))
    jobs: list[tuple[str, tuple]] = []
    if examples and hasattr(prop, "strategy"):
        per = max(examples // nshards, 1)
        for shard in range(nshards):
            jobs.append(("_hypothesis_shard", (prop_id, tier, seed, shard, per)))
    exhaustive_part = False
    if hasattr(prop, "enumerate_cases") and budget.get("enumerate", True):
        eshards = int(budget.get("enum_shards", nshards))
        for shard in range(eshards):
            jobs.append(("_enum_shard", (prop_id, tier, shard, eshards)))
        exhaustive_part = True

    if hasattr(prop, "opt_cases"):
        jobs.append(("_opt_shard", (prop_id, tier)))

    total = Stats()
    procs = min(len(jobs), int(os.environ.get("VERIF_PROCS", "16"))) or 1
    ctx = multiprocessing.get_context("fork")
    cap = float(budget.get("wall_cap_s", 3 * 3600))
    with ctx.Pool(procs, maxtasksperchild=None) as pool:
        async_res = pool.map_async(_guard_star, jobs, chunksize=1)
        try:
            results = async_res.get(timeout=cap)
        except multiprocessing.TimeoutError:
            print(f"INCONCLUSIVE: property={prop_id} wall-clock cap of {cap}s hit", flush=True)
            pool.terminate()
            return 2
    for status, payload in results:
        if status != "ok":
            print(f"HARNESS-ERROR: property={prop_id}\n{payload}", file=sys.stderr, flush=True)
            return 2
        total.merge(payload)

    extra = {}
    if hasattr(prop, "extra_engines"):
        # e.g. atheris campaigns; returns (Stats, info dict)
        more, extra = prop.extra_engines(tier, seed)
        total.merge(more)

    known = load_known(prop_id)
    known_hits: dict[str, int] = {}
    violations: list[tuple[str, str]] = []
    for sig in sorted(total.failures):
        info = total.failures[sig]
        if sig in known:
            known_hits[sig] = info["count"]
            print(f"KNOWN-FINDING: property={prop_id} {sig} :: {known[sig]} (hit {info['count']}x)", flush=True)
            continue
        small = shrink_case(prop, info["case"], sig)
        try:
            detail = prop.run_case(small).detail or info["detail"]
        except Exception:  # noqa: BLE001
            small, detail = info["case"], info["detail"]
        name = hashlib.blake2b(sig.encode(), digest_size=5).hexdigest()
        replay = os.path.join(OUT_DIR, "replays", f"{prop_id}-{name}.json")
        _write_json(
            replay,
            {
                "property_id": prop_id,
                "signature": sig,
                "detail": detail,
                "case": small,
                "found_with": {"seed": seed, "tier": tier, "count": info["count"]},
            },
        )
        info["detail"] = detail
        violations.append((sig, replay))

    wall = time.monotonic() - started
    coverage = {
        "evaluations": total.evaluations,
        "cases": total.cases,
        "distinct_cases": len(total.distinct),
        "distinct_nontrivial": len(total.nontrivial),
        "rule": prop.RULE,
        "samples": total.samples[:MAX_SAMPLES] or [],
        "class_histogram": dict(sorted(total.classes.items())),
        "engines": total.engines,
        "exhaustive": bool(exhaustive_part and budget.get("exhaustive_claim", False)),
        "known_finding_hits": known_hits,
        "excluded_by_known_findings": sum(known_hits.values()),
        "violation_signatures": [sig for sig, _ in violations],
    }
    if budget.get("bounds"):
        coverage["bounds"] = budget["bounds"]
    coverage.update(extra)
    evidence = {
        "property_id": prop_id,
        "tier": tier,
        "seed": seed,
        "level": prop.LEVEL,
        "coverage": coverage,
        "assumptions": list(getattr(prop, "ASSUMPTIONS", [])),
        "wall_s": round(wall, 2),
        "violations": len(violations),
    }
    _write_json(os.path.join(OUT_DIR, "evidence", f"{prop_id}.json"), evidence)

    print(
        f"property={prop_id} tier={tier} seed={seed} cases={total.cases} evaluations={total.evaluations} "
        f"distinct_nontrivial={len(total.nontrivial)} known_hits={sum(known_hits.values())} "
        f"violations={len(violations)} wall={wall:.1f}s",
        flush=True,
    )
    if total.cases == 0 or len(total.nontrivial) < 2:
        print(f"HARNESS-ERROR: property={prop_id} generator produced no non-trivial cases", file=sys.stderr)
        return 2
    for sig, replay in violations:
        print(f"  signature: {sig}\n  detail: {total.failures[sig]['detail'][:600]}", flush=True)
        print(f"VIOLATION property={prop_id} replay={replay}", flush=True)
    return 1 if violations else 0


def run_replay(prop_id: str, path: str) -> int:
    prop = load_prop(prop_id)
    with open(path, encoding="utf-8") as fil:
        doc = json.load(fil)
    case = doc["case"] if isinstance(doc, dict) and "case" in doc else doc
    if isinstance(case, dict) and case.get("python_O") and not sys.flags.optimize:
        # found by the pass under `python -O`: replayed by an interpreter started the same way
        import subprocess

        return subprocess.run([sys.executable, "-O", "-B", "-m", "vf.cli", prop_id, "--replay", path]).returncode
    out = prop.run_case(case)
    if out.ok:
        print(f"REPLAY property={prop_id} holds on {path}")
        return 0
    known = load_known(prop_id)
    if out.sig in known:
        print(f"KNOWN-FINDING: property={prop_id} {out.sig} :: {known[out.sig]}")
        return 0
    print(f"  signature: {out.sig}\n  detail: {out.detail}")
    print(f"VIOLATION property={prop_id} replay={path}")
    return 1
