"""Harness-owned environments: transports, gateway driving, registry snapshots."""

from __future__ import annotations

import asyncio
import logging
from typing import Any

from aiomysensors.exceptions import AIOMySensorsError, TransportError, TransportFailedError
from aiomysensors.gateway import Config, Gateway
from aiomysensors.model.message import Message
from aiomysensors.model.node import Child, Node
from aiomysensors.transport import Transport


logging.getLogger("asyncio").setLevel(logging.CRITICAL)
logging.getLogger("aiomysensors").setLevel(logging.CRITICAL)


class Drained(Exception):
    """Raised by the recording transport when the inbox is empty (harness sentinel)."""


class _Recording:
    """What every harness transport records and which write faults it can inject (mixed into the plain, MQTT and stream kinds)."""

    def _init_recording(self) -> None:
        self.inbox: list = []
        self.step = 0
        self.writes: list[tuple[int, str]] = []  # successful writes (step, line)
        self.attempts: list[tuple[int, str, bool]] = []  # every attempt (step, line, failed)
        self.fail_attempts: set[int] = set()  # global attempt indices (0-based) that fail
        self.fail_pred = None  # callable(line, n_matching_so_far) -> bool
        self.fail_exc = TransportFailedError  # class raised for an injected fault
        self.fail_after_record = False  # the bytes reach the wire, THEN the write raises (e.g. drain() failing)
        self.hang_pred = None  # callable(line) -> bool: the write never completes (a hung link) until the caller is cancelled
        self.delay = 0.0  # seconds of event-loop time every write takes before it succeeds (a slow link; virtual-time loop)
        self.on_write = None  # callable(line) run at the moment of a successful write
        self.connected = 0
        self.disconnected = 0

    async def _record_write(self, decoded_message: str) -> None:
        if self.delay:
            self.delaying = getattr(self, "delaying", 0) + 1  # (someone is inside a slow write right now)
            try:
                await asyncio.sleep(self.delay)
            finally:
                self.delaying -= 1
        idx = len(self.attempts)
        if self.hang_pred is not None and self.hang_pred(decoded_message):
            self.attempts.append((self.step, decoded_message, True))
            await asyncio.get_running_loop().create_future()  # never resolved: only a cancellation ends this write
        failed = idx in self.fail_attempts
        if not failed and self.fail_pred is not None:
            failed = bool(self.fail_pred(decoded_message))
        self.attempts.append((self.step, decoded_message, failed))
        if failed and self.fail_after_record:
            self.wire = getattr(self, "wire", []) + [decoded_message]
            raise self.fail_exc("injected write fault after the data was sent")
        if failed:
            raise self.fail_exc("injected write fault")
        self.wire = getattr(self, "wire", []) + [decoded_message]
        if self.on_write is not None:
            self.on_write(decoded_message)
        self.writes.append((self.step, decoded_message))

    def writes_at(self, step: int) -> list[str]:
        return [line for stp, line in self.writes if stp == step]


class RecordingTransport(_Recording, Transport):
    """In-memory transport: an inbox of lines, a log of writes, optional write faults."""

    def __init__(self) -> None:
        self._init_recording()

    async def connect(self) -> None:
        self.connected += 1

    async def disconnect(self) -> None:
        self.disconnected += 1

    wait_when_empty = False  # True: a read on an empty inbox waits for the next arrival (a quiet network) instead of ending the case
    _arrival = None

    async def read(self) -> str:
        while not self.inbox:
            if not self.wait_when_empty:
                raise Drained
            if self._arrival is None:
                self._arrival = asyncio.Event()
            self._arrival.clear()
            await self._arrival.wait()
        item = self.inbox.pop(0)
        if isinstance(item, BaseException):
            raise item  # an injected read failure (line noise, a lost link)
        return item

    def deliver(self, line: str) -> None:
        """A line arrives: whoever waits in read() is woken (in the order they started waiting)."""
        self.inbox.append(line)
        if self._arrival is not None:
            self._arrival.set()

    async def write(self, decoded_message: str) -> None:
        await self._record_write(decoded_message)


def line_to_publication(line: str) -> tuple[str, str] | None:
    """(topic levels joined by '/', payload) of a line a broker could deliver, or None when no publication spells it."""
    body = line[:-1] if line.endswith("\n") else line
    parts = body.split(";", 5)
    if len(parts) != 6:
        return None
    for level in parts[:5]:
        if any(ch in level for ch in "/#+\x00") or level.startswith("$"):
            return None
    return "/".join(parts[:5]), parts[5]


def _mqtt_recording_class():
    from aiomysensors.transport.mqtt import MQTTTransport

    class MqttRecordingTransport(_Recording, MQTTTransport):
        """The library's MQTT transport on a harness-owned broker: a received line arrives as the publication that spells
        it (topic `<in-prefix>/n/c/cmd/ack/type`, payload), a write is recorded as the line its publication spells."""

        def __init__(self) -> None:
            MQTTTransport.__init__(self, in_prefix="vf/gw-out", out_prefix="vf/gw-in")
            self._init_recording()
            self.subscriptions: list = []

        async def _connect(self) -> None:
            self.connected += 1

        async def _disconnect(self) -> None:
            self.disconnected += 1

        async def _subscribe(self, topic: str, qos: int) -> None:
            self.subscriptions.append((topic, qos))

        async def _publish(self, topic: str, payload: str, qos: int) -> None:
            prefix = self.out_prefix + "/"
            levels = topic[len(prefix):].split("/") if topic.startswith(prefix) else ["<topic outside the out-prefix: %s>" % topic]
            await self._record_write(";".join(levels) + ";" + payload + "\n")

        async def read(self) -> str:
            if getattr(self, "eager", False):
                # a backlog: the broker delivered everything that is waiting before the application reads anything
                pending, self.inbox[:] = list(self.inbox), []
                for item in pending:
                    publication = line_to_publication(item) if isinstance(item, str) else None
                    if publication is not None:
                        self._receive(f"{self.in_prefix}/{publication[0]}", publication[1])
                if self._incoming_messages.empty():
                    raise Drained
                return await MQTTTransport.read(self)
            if not self.inbox:
                raise Drained
            item = self.inbox.pop(0)
            if isinstance(item, BaseException):
                self._receive_error(item)  # type: ignore[arg-type]
                return await MQTTTransport.read(self)
            publication = line_to_publication(item) if isinstance(item, str) else None
            if publication is None:
                return item  # (nothing a broker could deliver: handed over as it is)
            self._receive(f"{self.in_prefix}/{publication[0]}", publication[1])
            if self._incoming_messages.empty():
                raise Drained  # the publication was delivered to the transport and nothing can be read: it was swallowed
            return await MQTTTransport.read(self)

    return MqttRecordingTransport


def _stream_recording_class():
    from aiomysensors.transport import StreamTransport

    class StreamRecordingTransport(_Recording, StreamTransport):
        """The library's stream transport on in-memory asyncio streams: a received line arrives as its UTF-8 bytes,
        a write is recorded as the text of the bytes that reached the connection."""

        def __init__(self) -> None:
            StreamTransport.__init__(self)
            self._init_recording()
            self.mem = None

        async def _open_connection(self):
            reader, writer, self.mem = mem_stream_pair(1 << 20)
            return reader, writer

        async def connect(self) -> None:
            self.connected += 1
            await StreamTransport.connect(self)

        async def disconnect(self) -> None:
            self.disconnected += 1
            await StreamTransport.disconnect(self)

        async def _ensure(self) -> None:
            if self.reader is None or self.mem is None or self.mem.closing:
                await StreamTransport.connect(self)

        async def read(self) -> str:
            if not self.inbox:
                raise Drained
            item = self.inbox.pop(0)
            if isinstance(item, BaseException):
                raise item
            try:
                data = item.encode("utf-8")
            except (UnicodeEncodeError, AttributeError):
                return item  # (not the text of any byte string: handed over as it is)
            if not item.endswith("\n") or "\n" in item[:-1]:
                return item  # (not one line of a stream)
            await self._ensure()
            self.reader.feed_data(data)
            return await StreamTransport.read(self)

        async def write(self, decoded_message: str) -> None:
            await self._ensure()
            before = len(self.mem.chunks)
            await StreamTransport.write(self, decoded_message)
            sent = b"".join(bytes(chunk) for chunk in self.mem.chunks[before:])
            await self._record_write(sent.decode("utf-8", "backslashreplace"))

    return StreamRecordingTransport


VIA_KINDS = ("plain", "mqtt", "stream")


def make_transport(via: str | None):
    if via in (None, "plain"):
        return RecordingTransport()
    if via == "mqtt":
        return _mqtt_recording_class()()
    if via == "stream":
        return _stream_recording_class()()
    raise ValueError(via)


class strict_warnings:
    """Run a block the way `python -W error` / pytest's `filterwarnings = error` would: a warning issued from the library is an exception."""

    def __init__(self, enabled: bool) -> None:
        self.enabled = enabled
        self.ctx = None

    def __enter__(self):
        if self.enabled:
            import warnings

            self.ctx = warnings.catch_warnings()
            self.ctx.__enter__()
            warnings.simplefilter("error")  # every warning, whoever issues it on the library's behalf (its dependencies warn about how they are called)
            warnings.simplefilter("ignore", ResourceWarning)
        return self

    def __exit__(self, *exc) -> None:
        if self.ctx is not None:
            self.ctx.__exit__(*exc)
            self.ctx = None


class FakeClock:
    """While active, time.monotonic()/time.time() run `offset` seconds ahead; `advance` lets hours pass in no time."""

    def __init__(self) -> None:
        self.offset = 0.0

    def __enter__(self):
        import time

        self._time = time
        self._mono, self._wall = time.monotonic, time.time
        time.monotonic = lambda: self._mono() + self.offset  # type: ignore[assignment]
        time.time = lambda: self._wall() + self.offset  # type: ignore[assignment]
        return self

    def advance(self, seconds: float) -> None:
        self.offset += float(seconds)

    def __exit__(self, *exc) -> None:
        self._time.monotonic, self._time.time = self._mono, self._wall


class _Swallow(logging.Handler):
    def emit(self, record: logging.LogRecord) -> None:
        try:
            record.getMessage()  # force %-formatting as a real handler would
        except Exception:  # noqa: BLE001
            pass


class debug_logging:
    """Run a block with the library's loggers at DEBUG (what `aiomysensors --debug` does), output swallowed."""

    def __init__(self, enabled: bool) -> None:
        self.enabled = enabled
        self.saved: list = []

    def __enter__(self):
        if self.enabled:
            self.handler = _Swallow()
            for name in ("aiomysensors", "aiomysensors.model", "paho.mqtt.client"):
                logger = logging.getLogger(name)
                self.saved.append((logger, logger.level, logger.propagate))
                logger.setLevel(logging.DEBUG)
                logger.propagate = False
                logger.addHandler(self.handler)
        return self

    def __exit__(self, *exc) -> None:
        for logger, level, propagate in self.saved:
            logger.removeHandler(self.handler)
            logger.setLevel(level)
            logger.propagate = propagate
        self.saved = []


EAGER_TASKS = [False]  # set by `eager_tasks(True)`: loops made by `run` start every task eagerly (asyncio.eager_task_factory, Python 3.12+)


class eager_tasks:
    """While active, `run` uses an event loop whose task factory is asyncio.eager_task_factory (an application may configure its loop so)."""

    def __init__(self, enabled: bool) -> None:
        self.enabled = bool(enabled) and hasattr(asyncio, "eager_task_factory")

    def __enter__(self):
        self.saved = EAGER_TASKS[0]
        if self.enabled:
            EAGER_TASKS[0] = True
        return self

    def __exit__(self, *exc) -> None:
        EAGER_TASKS[0] = self.saved


def run(coro: Any, *, debug_log: bool = False) -> Any:
    """Run a coroutine on a fresh event loop (optionally with the library logging at DEBUG)."""
    with debug_logging(debug_log):
        if EAGER_TASKS[0]:
            def factory():
                loop = asyncio.new_event_loop()
                loop.set_task_factory(asyncio.eager_task_factory)
                return loop

            with asyncio.Runner(loop_factory=factory) as runner:
                return runner.run(coro)
        return asyncio.run(coro)


CTX_MODES = ("same", "copied", "thread")


def in_ctx(mode: str | None, func):
    """Run a set-up step in the caller's context, in a copied contextvars context, or in another thread.

    An application may build its gateway in one task or thread and use it in another: nothing the library
    keeps in context variables or thread-locals at set-up time may be needed later.
    """
    if mode in (None, "same"):
        return func()
    if mode == "copied":
        import contextvars

        return contextvars.copy_context().run(func)
    import threading

    box: list = []

    def target() -> None:
        try:
            box.append((True, func()))
        except BaseException as err:  # noqa: BLE001
            box.append((False, err))

    thread = threading.Thread(target=target)
    thread.start()
    thread.join()
    ok, value = box[0]
    if not ok:
        raise value
    return value


def read_error(kind: str) -> BaseException:
    """A transport read failure of the given kind, as the library's transports raise them."""
    from aiomysensors.exceptions import TransportReadError

    if kind == "read":
        return TransportReadError(UnicodeDecodeError("utf-8", b"\xff", 0, 1, "invalid start byte"), b"1;2\xff")
    if kind == "failed":
        return TransportFailedError("injected read failure: link lost")
    return TransportError("injected read failure")


UNWRITABLE_FILE = "/nonexistent-directory-for-vf/registry.json"


def make_gateway(version: str | None, *, metric: bool = True, transport: Transport | None = None, ctx: str | None = None, persistence_file: str | None = None, via: str | None = None) -> tuple[Gateway, Any]:
    """persistence_file: None, a path, or "unwritable" (a location that cannot be written: every save fails with PersistenceWriteError).
    via: which kind of transport carries the lines (plain fake, the library's MQTT transport, the library's stream transport)."""
    transport = transport or make_transport(via)
    if persistence_file == "unwritable":
        persistence_file = UNWRITABLE_FILE

    def build() -> Gateway:
        gateway = Gateway(transport, Config(metric=metric, persistence_file=persistence_file))
        if version is not None:
            gateway.protocol_version = version
        return gateway

    return in_ctx(ctx, build), transport


async def rx(gateway: Gateway, line: str) -> tuple[str, Any]:
    """Deliver one line and ask for the next message on a fresh listen() generator."""
    transport = gateway.transport
    transport.inbox.append(line)  # type: ignore[attr-defined]
    agen = gateway.listen()
    try:
        msg = await agen.__anext__()
    except AIOMySensorsError as err:
        return "liberr", err
    except Drained:
        return "drained", None
    except Exception as err:  # noqa: BLE001 - the leak is what several properties look for
        return "leak", err
    finally:
        try:
            await agen.aclose()
        except Exception:  # noqa: BLE001
            pass
        transport.inbox.clear()  # type: ignore[attr-defined]
    return "ok", msg


async def rx_after_idle(gateway: Gateway, line: str, idle_timeouts: int = 1) -> tuple[str, Any]:
    """The network is quiet: the application's wait for the next message times out (once or more), it starts listening again,
    and then the line arrives while that listener is waiting. Result as for `rx`; a line nobody yields or rejects is "drained"."""
    transport = gateway.transport
    if not isinstance(transport, RecordingTransport):
        return await rx(gateway, line)
    transport.wait_when_empty = True
    agen = None
    try:
        for _ in range(idle_timeouts):
            idle = gateway.listen()
            try:
                await asyncio.wait_for(idle.__anext__(), 0.002)
            except asyncio.TimeoutError:
                pass
            except AIOMySensorsError:
                pass
            finally:
                try:
                    await idle.aclose()
                except Exception:  # noqa: BLE001
                    pass
        agen = gateway.listen()
        task = asyncio.ensure_future(agen.__anext__())
        for _ in range(3):
            await asyncio.sleep(0)
        transport.deliver(line)
        try:
            # (a handful of loop iterations are needed; 2 s of real time only run out when nothing ever comes)
            msg = await asyncio.wait_for(task, 2.0)
        except asyncio.TimeoutError:
            return "drained", None
        except AIOMySensorsError as err:
            return "liberr", err
        except Exception as err:  # noqa: BLE001
            return "leak", err
        return "ok", msg
    finally:
        transport.wait_when_empty = False
        if transport._arrival is not None:
            transport._arrival.set()  # (release whoever is still waiting: they find nothing and end)
        if agen is not None:
            try:
                await agen.aclose()
            except Exception:  # noqa: BLE001
                pass
        for _ in range(3):
            await asyncio.sleep(0)
        transport.inbox.clear()


class Listener:
    """One long-lived listen() generator, as in the README's `async for`; renewed only after an error."""

    def __init__(self, gateway: Gateway) -> None:
        self.gateway = gateway
        self.agen = None
        self.renewals = 0

    async def next(self, line: str) -> tuple[str, Any]:
        transport = self.gateway.transport
        transport.inbox.append(line)  # type: ignore[attr-defined]
        if self.agen is None:
            self.agen = self.gateway.listen()
            self.renewals += 1
        try:
            msg = await self.agen.__anext__()
        except AIOMySensorsError as err:
            await self._drop()
            return "liberr", err
        except Drained:
            await self._drop()
            return "drained", None
        except Exception as err:  # noqa: BLE001
            await self._drop()
            return "leak", err
        except BaseException:
            self.agen = None  # cancelled inside the generator: it is finished
            raise
        finally:
            transport.inbox.clear()  # type: ignore[attr-defined]
        return "ok", msg

    async def _drop(self) -> None:
        agen, self.agen = self.agen, None
        if agen is not None:
            try:
                await agen.aclose()
            except Exception:  # noqa: BLE001
                pass

    async def close(self) -> None:
        await self._drop()


async def send(gateway: Gateway, msg: Any, buffer: bool | None = None) -> tuple[str, Any]:
    try:
        if buffer is None:
            await gateway.send(msg)
        else:
            await gateway.send(msg, message_buffer=buffer)
    except AIOMySensorsError as err:
        return "liberr", err
    except Exception as err:  # noqa: BLE001
        return "leak", err
    return "ok", None


async def send_nothing_and_listen(gateway: Gateway) -> tuple[str, Any]:
    """One anext() on a fresh listen() generator; the caller queued the lines (used for concurrent listeners)."""
    agen = gateway.listen()
    try:
        msg = await agen.__anext__()
    except AIOMySensorsError as err:
        return "liberr", err
    except Drained:
        return "drained", None
    except Exception as err:  # noqa: BLE001
        return "leak", err
    finally:
        try:
            await agen.aclose()
        except Exception:  # noqa: BLE001
            pass
    return "ok", msg


def mk_message(fields: list) -> Message:
    return Message(fields[0], fields[1], fields[2], fields[3], fields[4], fields[5])


def msg_fields(msg: Any) -> list:
    return [
        getattr(msg, "node_id", None),
        getattr(msg, "child_id", None),
        getattr(msg, "command", None),
        getattr(msg, "ack", None),
        getattr(msg, "message_type", None),
        getattr(msg, "payload", None),
    ]


def exact_fields(msg: Any, expected: list) -> bool:
    got = msg_fields(msg)
    if got != expected:
        return False
    return all(type(g) is type(e) for g, e in zip(got, expected))


def snapshot(nodes: dict) -> dict:
    """Deep, comparable, JSON-able copy of a registry (all attributes of C04/C13)."""
    out = {}
    for node_id, node in nodes.items():
        out[str(node_id)] = {
            "node_id": node.node_id,
            "node_type": node.node_type,
            "protocol_version": node.protocol_version,
            "sketch_name": node.sketch_name,
            "sketch_version": node.sketch_version,
            "battery_level": node.battery_level,
            "heartbeat": node.heartbeat,
            "sleeping": node.sleeping,
            "children": {
                str(child_id): {
                    "child_id": child.child_id,
                    "child_type": child.child_type,
                    "description": child.description,
                    "values": {str(k): v for k, v in child.values.items()},
                }
                for child_id, child in node.children.items()
            },
        }
    return out


def install_registry(nodes: dict, spec: dict) -> None:
    """Install a registry given in snapshot form, the way persistence does (plain objects)."""
    for key, nspec in spec.items():
        node_id = int(key)
        children = {}
        for ckey, cspec in nspec.get("children", {}).items():
            children[int(ckey)] = Child(
                int(ckey),
                cspec.get("child_type", 0),
                description=cspec.get("description", ""),
                values={int(k): v for k, v in cspec.get("values", {}).items()},
            )
        node = Node(
            node_id,
            nspec.get("node_type", 17),
            nspec.get("protocol_version", "1.4"),
            children=children,
            sketch_name=nspec.get("sketch_name", ""),
            sketch_version=nspec.get("sketch_version", ""),
            battery_level=nspec.get("battery_level", 0),
            heartbeat=nspec.get("heartbeat", 0),
            sleeping=nspec.get("sleeping", False),
        )
        if nspec.get("reboot"):
            node.reboot = True
        nodes[node_id] = node


def exc_sig(err: BaseException) -> str:
    """Exception type + innermost frame inside the aiomysensors package."""
    import traceback

    frames = traceback.extract_tb(err.__traceback__)
    inner = ""
    for frame in frames:
        if "/aiomysensors/" in frame.filename:
            inner = f"{frame.filename.split('/aiomysensors/')[-1]}:{frame.name}"
    return f"{type(err).__name__}@{inner or 'outside-package'}"


class MemTransport(asyncio.Transport):
    """Minimal in-memory asyncio transport: lets the harness use REAL StreamReader/StreamWriter objects."""

    def __init__(self) -> None:
        super().__init__()
        self.chunks: list = []  # the very objects handed to write(): a real transport queues them when it cannot send at once
        self.closing = False
        self.close_exc: BaseException | None = None
        self.lost_exc: BaseException | None = None
        self.protocol: Any = None
        self.closed_count = 0
        self.discarded = 0  # queued objects thrown away by abort() before any close() (a graceful close flushes them, an abort does not)

    @property
    def data(self) -> bytes:
        """What goes out on the wire: the queued objects as they are NOW (the link was busy; nothing has been copied yet)."""
        return b"".join(bytes(chunk) for chunk in self.chunks)

    def write(self, data) -> None:
        if not self.closing:
            self.chunks.append(data)

    def writelines(self, lines) -> None:
        for line in lines:
            self.write(line)

    def is_closing(self) -> bool:
        return self.closing

    def can_write_eof(self) -> bool:
        return False

    def close(self) -> None:
        self.closed_count += 1
        if self.close_exc is not None:
            exc, self.close_exc = self.close_exc, None  # injected once (the garbage collector closes again later)
            self.closing = True
            raise exc
        if not self.closing:
            self.closing = True
            if self.protocol is not None:
                try:
                    asyncio.get_running_loop().call_soon(self.protocol.connection_lost, self.lost_exc)
                except RuntimeError:
                    pass  # closed by the garbage collector after the loop is gone

    def abort(self) -> None:
        # (the peer is slow: everything written is still queued here; abort() drops the queue, close() would have flushed it)
        self.discarded += len(self.chunks)
        self.close()

    def get_extra_info(self, name, default=None):
        return default

    def get_write_buffer_size(self) -> int:
        return 0


def mem_stream_pair(limit: int = 65536) -> tuple[asyncio.StreamReader, asyncio.StreamWriter, MemTransport]:
    """A real (reader, writer) pair over an in-memory transport; feed the reader by hand."""
    loop = asyncio.get_running_loop()
    reader = asyncio.StreamReader(limit=limit, loop=loop)
    protocol = asyncio.StreamReaderProtocol(reader, loop=loop)
    mem = MemTransport()
    mem.protocol = protocol
    protocol.connection_made(mem)
    return reader, asyncio.StreamWriter(mem, protocol, reader, loop), mem
