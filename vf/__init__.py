"""Verification machinery for aiomysensors (property-based testing and fuzzing)."""
