"""Drive a real Gateway and the reference controller through one history, in lock-step.

A history is JSON: {"version": v|None, "metric": bool, "registry": {...snapshot form...},
"ops": [op, ...]} with ops

    ["rx", line]                       deliver one line, one anext() on a fresh listen()
    ["send", [n,c,1,ack,t,payload], buffer]   application send of a set command
    ["flag", node, "reboot", bool]     application sets Node.reboot

Each property checks its own *aspects* of every step (see DESIGN 3, soundness rules):
    outcome   outcome class, error attributes, yielded fields
    registry  deep registry snapshot equals the model after the step
    writes    non-query, non-request writes == reactions + released commands (multiset)
    sendwrites / flush   what an application send writes at once; what a wake releases (C07's own)
    vquery    number of version queries
    presreq   presentation-request writes
    idalloc   the id handed out is fresh / in range / registered at write time
    leak      no non-library exception
If the implementation leaves the model on an aspect the property does not own, the
history stops quietly (class `diverged-elsewhere`): the owner property reports it.
"""

from __future__ import annotations

import asyncio
import os
import re
from collections import Counter
from typing import Any

from aiomysensors.exceptions import (
    InvalidMessageError,
    MissingChildError,
    MissingNodeError,
    TooManyNodesError,
    TransportError,
    UnsupportedMessageError,
)

from vf import env
from vf.model import VERSION_QUERY, Pred, RefController
from vf.runner import Outcome, fail

PRESREQ = re.compile(r"(\d+);255;3;0;19;\n\Z")
IDRESP = re.compile(r"(\d+);(\d+);3;0;4;(-?\d+)\n\Z")
TIMEREPLY = re.compile(r"(\d+);(\d+);3;0;1;(-?\d+)\n\Z")
LIBERR_FAMILY = ("invalid", "missing_node", "missing_child", "unsupported", "too_many", "transport", "liberr_other")


def classify(status: str, value: Any) -> str:
    if status == "ok":
        return "ok"
    if status == "leak":
        return "leak"
    if status == "drained":
        return "drained"
    if status == "cancelled":
        return "cancelled"
    if isinstance(value, InvalidMessageError):
        return "invalid"
    if isinstance(value, MissingNodeError):
        return "missing_node"
    if isinstance(value, MissingChildError):
        return "missing_child"
    if isinstance(value, UnsupportedMessageError):
        return "unsupported"
    if isinstance(value, TooManyNodesError):
        return "too_many"
    if isinstance(value, TransportError):
        return "transport"
    return "liberr_other"


def outcome_matches(pred_outcomes: tuple[str, ...], observed: str) -> bool:
    for want in pred_outcomes:
        if want == observed:
            return True
        if want == "liberr" and observed in LIBERR_FAMILY:
            return True
    return False


class StepRecord:
    def __init__(self) -> None:
        self.index = 0
        self.op: list = []
        self.pred: Pred | None = None
        self.status = ""
        self.value: Any = None
        self.outcome = ""
        self.writes: list[str] = []
        self.attempts: list[tuple[int, str, bool]] = []
        self.before: dict = {}
        self.after: dict = {}
        self.assigned_id: int | None = None
        self.registered_at_write: bool | None = None


def _msgkind(fields: list | None) -> str:
    if not fields:
        return "undecoded"
    cmd, mtype = fields[2], fields[4]
    return f"cmd{cmd}" if cmd != 3 else f"i{mtype}"


async def run_history(
    case: dict,
    aspects: frozenset[str],
    *,
    hooks: dict | None = None,
) -> tuple[Outcome | None, dict]:
    """Execute the history (optionally with the library logging at DEBUG). Returns (violation or None, info)."""
    with env.debug_logging(bool(case.get("debug_log"))), env.strict_warnings(case.get("warnings") == "error"), env.FakeClock() as clock:
        hooks = dict(hooks or {})
        hooks["_clock"] = clock
        bad, info = await _run_history(case, aspects, hooks=hooks)
    tmpdir = info.pop("tmpdir", None)
    if tmpdir is not None:
        import shutil

        shutil.rmtree(tmpdir, ignore_errors=True)
    return bad, info


async def _run_history(
    case: dict,
    aspects: frozenset[str],
    *,
    hooks: dict | None = None,
) -> tuple[Outcome | None, dict]:
    hooks = hooks or {}
    version = case.get("version")
    metric = case.get("metric", True)
    registry = case.get("registry") or {}
    model = RefController(version, metric=metric, registry=registry)
    persistence_file = case.get("persistence_file")
    scratch_dir = None
    if persistence_file == "scratch":
        # a registry file that works (in a directory of its own, removed afterwards)
        import os
        import tempfile

        scratch_dir = tempfile.mkdtemp(prefix="vfhist-", dir="/dev/shm" if os.path.isdir("/dev/shm") else None)
        persistence_file = os.path.join(scratch_dir, "registry.json")
    gateway, transport = env.make_gateway(version, metric=metric, ctx=case.get("ctx"), persistence_file=persistence_file, via=case.get("via"))
    env.install_registry(gateway.nodes, registry)
    if "setup" in hooks:
        hooks["setup"](gateway, transport, model)
    info: dict[str, Any] = {"classes": Counter(), "steps": 0, "diverged": False, "model": model, "gateway": gateway}
    if scratch_dir is not None:
        info["tmpdir"] = scratch_dir
    classes: Counter = info["classes"]
    if case.get("via") not in (None, "plain"):
        classes[f"via={case['via']}"] += 1
    bystander = None
    if case.get("bystander"):
        # another gateway object lives in the same process (a second MySensors network): it runs the rules of another protocol
        # version and handles a message of its own before every step of this history
        other_version = "1.5" if (version or "1.4").startswith("2") else "2.2"
        bystander, _bt = env.make_gateway(other_version, metric=not metric)
        env.install_registry(bystander.nodes, {"1": {"protocol_version": "2.0", "sleeping": True, "children": {"1": {"child_type": 3, "values": {"2": "0"}}}},
                                               "4": {"protocol_version": "2.0", "children": {"1": {"child_type": 6, "values": {"0": "1"}}}}})
        bystander_lines = [f"0;255;3;0;2;{other_version}.0\n", "0;255;3;0;14;\n", "1;1;1;0;2;1\n", "4;1;2;0;0;\n", "1;255;3;0;22;5\n", "77;1;1;0;0;1\n", "4;255;3;0;6;\n",
                           "255;255;3;0;3;\n", "4;255;0;0;17;2.1.0\n", "4;255;3;0;1;\n"]
        classes["bystander-gateway"] += 1
    # "persistent": one long-lived listen() generator (renewed only after an error); "fresh": a new one per line
    listener = env.Listener(gateway) if case.get("listen_mode") == "persistent" else None
    classes[f"listen={'persistent' if listener else 'fresh'}"] += 1

    def bad(sig: str, detail: str, idx: int) -> Outcome:
        return fail(sig, f"step {idx} {case['ops'][idx]!r}: {detail}", classes=tuple(classes))

    for idx, op in enumerate(case["ops"]):
        transport.step = idx
        info["steps"] = idx + 1
        kind = op[0]
        if bystander is not None:
            if idx % 3 == 2:
                await env.send(bystander, env.mk_message([1, 1, 1, 0, 2, str(idx % 2)]), True)
            await env.rx(bystander, bystander_lines[idx % len(bystander_lines)])
        if kind == "session":
            if listener is not None:
                await listener.close()
            try:
                if info.get("in_session"):
                    info["in_session"] = False
                    await gateway.__aexit__(None, None, None)
                file_there = scratch_dir is not None and os.path.isfile(persistence_file)
                await gateway.__aenter__()
                info["in_session"] = True
                classes["session-restart"] += 1
                if file_there:
                    model.reboot.clear()  # the registry was read back from its file: every node is a new object, application flags on the old ones are gone
                    classes["session-reloaded-registry"] += 1
            except TransportError:
                raise
            except Exception as err:  # noqa: BLE001
                # (e.g. a persistence file that cannot be written: the context cannot be entered - not this driver's subject)
                classes[f"session-failed:{type(err).__name__}"] += 1
            continue
        if kind == "read_error":
            # the transport fails to read (line noise, a dropped link): a library error, and nothing else changes
            writes_before = len(transport.writes)
            status, value = await (listener.next(env.read_error(op[1])) if listener else env.rx(gateway, env.read_error(op[1])))
            classes["op:read_error"] += 1
            if status == "leak":
                if "leak" in aspects:
                    return bad(f"leak:{env.exc_sig(value)}", f"{value!r}", idx), info
            elif status != "liberr" or not isinstance(value, TransportError):
                if "outcome" in aspects:
                    return bad("read-error-not-reported", f"the transport's read raised a TransportError; listen gave {status} {value!r}", idx), info
            if len(transport.writes) != writes_before and ("writes" in aspects or "vquery" in aspects or "presreq" in aspects):
                return bad("write-after-read-error", f"a failed read was followed by writes {transport.writes[writes_before:]!r}", idx), info
            if env.snapshot(gateway.nodes) != model.nodes and "registry" in aspects:
                return bad("registry-changed-by-read-error", "the registry changed although nothing was received", idx), info
            continue
        if kind in ("save", "reload"):
            # the registry is written to its persistence file (scheduled save, or leaving the gateway context) / read back
            # from it (entering the context again): Persistence shares the gateway's registry dict, as Gateway builds it
            if "persistence" not in info:
                import os
                import tempfile

                from aiomysensors.persistence import Persistence

                info["tmpdir"] = tempfile.mkdtemp(prefix="vfhist-", dir="/dev/shm" if os.path.isdir("/dev/shm") else None)
                info["persistence"] = Persistence(gateway.nodes, os.path.join(info["tmpdir"], "registry.json"))
                info["saved"] = None
            import copy

            try:
                if kind == "save":
                    await info["persistence"].save()
                    info["saved"] = copy.deepcopy(model.nodes)
                else:
                    await info["persistence"].load()
                    if info["saved"] is None:
                        info["saved"] = copy.deepcopy(model.nodes)  # a missing file is created from the current registry; nothing is replaced
                    else:
                        for key, saved_node in info["saved"].items():
                            model.nodes[key] = copy.deepcopy(saved_node)  # every node in the file replaces the one in the registry
                            model.reboot.discard(int(key))  # ... as a new object: an application flag on the old object is gone
            except Exception as err:  # noqa: BLE001
                if "leak" in aspects or "registry" in aspects:
                    return bad(f"{kind}-raises:{type(err).__name__}", f"{err!r}", idx), info
                info["diverged"] = True
                classes["diverged-elsewhere"] += 1
                return None, info
            classes[f"op:{kind}"] += 1
            if env.snapshot(gateway.nodes) != model.nodes:
                if "registry" in aspects or "idalloc" in aspects:
                    diff = _first_diff(model.nodes, env.snapshot(gateway.nodes))
                    return bad(f"registry-changed-by-{kind}:{diff[0]}", f"registry differs at {diff[1]}: model {diff[2]!r}, gateway {diff[3]!r}", idx), info
                info["diverged"] = True
                classes["diverged-elsewhere"] += 1
                return None, info
            continue
        if kind == "sleep":
            attempts_before = len(transport.attempts)
            await asyncio.sleep(float(op[1]))  # meaningful on the virtual-time loop
            hooks["_clock"].advance(float(op[1]))  # the process clocks (time.monotonic, time.time) move along
            classes["op:sleep"] += 1
            spontaneous = [line for _s, line, _f in transport.attempts[attempts_before:]]
            if spontaneous and aspects & {"writes", "vquery", "presreq", "flush", "sendwrites"}:
                return bad("write-without-received-message", f"{op[1]} s passed with nothing received, and the controller wrote {spontaneous!r}", idx), info
            continue
        if kind == "tick":
            hooks["_clock"].advance(float(op[1]))  # time passes for time.monotonic()/time.time() only (usable on a real loop)
            classes["op:tick"] += 1
            continue
        if kind == "install":
            # the registry grows outside the handlers (persistence.load on a running gateway, or the application itself)
            from aiomysensors.model.node import Node as _Node

            node_id = int(op[1])
            if node_id not in gateway.nodes:
                how = op[2] if len(op) > 2 else "setitem"
                if how == "update":
                    gateway.nodes.update({node_id: _Node(node_id, 17, "2.0")})
                elif how == "setdefault":
                    gateway.nodes.setdefault(node_id, _Node(node_id, 17, "2.0"))
                elif how == "ior":
                    gateway.nodes |= {node_id: _Node(node_id, 17, "2.0")}
                else:
                    gateway.nodes[node_id] = _Node(node_id, 17, "2.0")
                classes[f"install:{how}"] += 1
                from vf.model import new_node as _new_node

                model.nodes[str(node_id)] = _new_node(node_id, 17, "2.0")
            continue
        if kind == "remove":
            # the application removes a node from the registry (a device that was decommissioned)
            node_id = int(op[1])
            gateway.nodes.pop(node_id, None)
            transport.forgotten = getattr(transport, "forgotten", []) + [(len(getattr(transport, "wire", [])), node_id)]  # (id free again from here on)
            model.nodes.pop(str(node_id), None)
            model.reboot.discard(node_id)
            classes["op:remove"] += 1
            continue
        if kind == "metric":
            gateway.config.metric = bool(op[1])  # the application changes its configuration in place
            model.metric = bool(op[1])
            continue
        if kind == "flag":
            _k, node, _name, value = op
            if node in gateway.nodes:
                gateway.nodes[node].reboot = bool(value)
                if value:
                    model.reboot.add(node)
                else:
                    model.reboot.discard(node)
            continue
        if kind == "send":
            info["sends_seen"] = True
            _k, fields, buffer = op[0], op[1], op[2]
            if fields[2] != 1:
                # the application sends something that is not a set command (a value request, an internal command):
                # it is written now or held by the library for a sleeping destination (C12 judges that) - what the
                # properties here care about is that it leaves the parked set commands and the reactions alone
                from vf.codec_ref import ref_format as _ref_format

                saved_preds = (transport.fail_pred, transport.hang_pred)
                transport.fail_pred = transport.hang_pred = None  # injected faults are aimed at the receive path's own writes
                try:
                    status, value = await env.send(gateway, env.mk_message(fields), buffer)
                finally:
                    transport.fail_pred, transport.hang_pred = saved_preds
                got = transport.writes_at(idx)
                own = _ref_format(*fields)
                classes["send-other-command"] += 1
                if status == "leak" and "leak" in aspects:
                    return bad(f"send-leak:{env.exc_sig(value)}", f"{value!r}", idx), info
                if status == "ok" and not got:
                    info.setdefault("other_pending", Counter())[own] += 1
                elif status == "ok" and got != [own]:
                    if "sendwrites" in aspects:
                        return bad("send-wrong-write", f"send of {fields!r} wrote {got!r}", idx), info
                    info["diverged"] = True
                    classes["diverged-elsewhere"] += 1
                    return None, info
                continue
            key = (fields[0], fields[1], fields[4])
            had_key = key in model.parked
            flushed_before = fields[0] in info.setdefault("flushed_nodes", set())
            expected = model.send_set(fields, True if buffer is None else buffer)
            if not expected:
                if had_key:
                    classes["park-overwrite"] += 1
                if flushed_before:
                    classes["re-park-after-flush"] += 1
            message = env.mk_message(fields)
            if len(op) > 3 and op[3] == "reuse":
                # the application keeps one Message object per command and sets its fields before each send
                previous = info.setdefault("sent_objects", {}).get(key)
                if previous is not None and not (had_key and expected):  # (never edit an object that is sitting in the sleep buffer and stays there)
                    message = previous
                    message.ack, message.payload = fields[3], fields[5]
                    classes["send-reused-object"] += 1
            info.setdefault("sent_objects", {})[key] = message
            status, value = await env.send(gateway, message, buffer)
            got = transport.writes_at(idx)
            classes["send-parked" if not expected else "send-direct"] += 1
            if status == "leak" and "leak" in aspects:
                return bad(f"send-leak:{env.exc_sig(value)}", f"{value!r}", idx), info
            if status != "ok":
                if "sendwrites" in aspects:
                    return bad(f"send-raises:{type(value).__name__}", f"send raised {value!r}", idx), info
                info["diverged"] = True
                classes["diverged-elsewhere"] += 1
                return None, info
            if Counter(got) != Counter(expected):
                if "sendwrites" in aspects:
                    sig = "send-not-parked" if not expected else ("send-not-written" if not got else "send-wrong-write")
                    return bad(sig, f"send wrote {got!r}, expected {expected!r}", idx), info
                info["diverged"] = True
                classes["diverged-elsewhere"] += 1
                return None, info
            continue
        if kind not in ("rx", "rx_after_idle"):
            raise ValueError(f"unknown op {op!r}")

        line = op[1]
        pred = model.rx(line)
        rec = StepRecord()
        rec.index, rec.op, rec.pred = idx, op, pred
        rec.before = env.snapshot(gateway.nodes)
        if pred.id_request is not None:
            def on_write(written: str, rec: StepRecord = rec) -> None:
                match = IDRESP.match(written)
                if match and rec.registered_at_write is None:
                    rec.registered_at_write = int(match.group(3)) in gateway.nodes
            transport.on_write = on_write
        if "before_rx" in hooks:
            hooks["before_rx"](rec, gateway, transport, model)
        if kind == "rx_after_idle":
            # the line arrives after a quiet spell in which the application's wait for a message timed out (op[2] times)
            if listener is not None:
                await listener.close()
            receive = env.rx_after_idle(gateway, line, int(op[2]) if len(op) > 2 else 1)
            classes["rx-after-idle"] += 1
        else:
            receive = listener.next(line) if listener is not None else env.rx(gateway, line)
        if case.get("tasks"):
            receive = asyncio.ensure_future(receive)  # every message handled in a task of its own (nothing may live in the task's context)
        if case.get("rx_timeout"):
            # the application bounds every receive with a timeout (virtual time): a hung write ends in a cancellation
            try:
                rec.status, rec.value = await asyncio.wait_for(receive, float(case["rx_timeout"]))
            except asyncio.TimeoutError as err:
                rec.status, rec.value = "cancelled", err
                transport.inbox.clear()
                classes["rx-cancelled"] += 1
        else:
            rec.status, rec.value = await receive
        transport.on_write = None
        rec.outcome = classify(rec.status, rec.value)
        rec.writes = transport.writes_at(idx)
        rec.attempts = [a for a in transport.attempts if a[0] == idx]
        rec.after = env.snapshot(gateway.nodes)
        mk = _msgkind(pred.fields)
        classes[f"rx:{rec.outcome}"] += 1

        if rec.outcome == "drained":
            # the line was consumed without a yield and without an error (the listener asked for another line)
            owed = bool(pred.reactions) or (pred.flush_node is not None and bool(model.parked_for(pred.flush_node))) or pred.time_reply or pred.id_request
            if "outcome" in aspects or ("writes" in aspects and owed) or ("presreq" in aspects and pred.presreq_node is not None) \
                    or ("vquery" in aspects and model.version is None and pred.fields is not None and not pred.version_exempt):
                return bad(f"line-swallowed:{mk}", "the line was consumed but neither yielded nor rejected", idx), info
            info["diverged"] = True
            classes["diverged-elsewhere"] += 1
            return None, info
        def query_owed_but_missing() -> bool:
            # whatever else went wrong with this step: a decoded message received while the version is unknown is followed by
            # the version query (version reports themselves excepted: whether they made the version known is part of the divergence)
            fields = pred.fields
            if "vquery" not in aspects or model.version is not None or fields is None or pred.version_exempt:
                return False
            if (fields[2] == 3 and fields[4] == 2) or (fields[2] == 0 and fields[0] == 0 and fields[1] == 255):
                return False
            return VERSION_QUERY not in rec.writes and not any(failed for _s, _l, failed in rec.attempts)

        if rec.outcome == "leak":
            if "leak" in aspects:
                return bad(f"leak:{env.exc_sig(rec.value)}", f"{rec.value!r}", idx), info
            if "presreq" in aspects and pred.presreq_node is not None and not any(PRESREQ.match(w) for w in rec.writes) and not rec.attempts:
                return bad(f"presreq-missing:{_msgkind(pred.fields)}", f"a presentation request to node {pred.presreq_node} is owed and none was written (the step ended in {rec.value!r})", idx), info
            if "writes" in aspects and tuple(pred.outcomes) == ("ok",) and (Counter(pred.reactions) - Counter(rec.writes)) and not rec.attempts:
                return bad(f"reaction-refused:{_msgkind(pred.fields)}:leak", f"owed {pred.reactions!r}, wrote {rec.writes!r} (the step ended in {rec.value!r})", idx), info
            if query_owed_but_missing():
                return bad(f"version-query:missing:{mk}", f"no version query although the version is unknown (the step ended in {rec.value!r})", idx), info
            info["diverged"] = True
            classes["diverged-elsewhere"] += 1
            return None, info

        faulted = any(failed for _s, _l, failed in rec.attempts)
        if faulted and "fault_step" in hooks:
            verdict = hooks["fault_step"](rec, model)
            if verdict is not None:
                return bad(verdict[0], verdict[1], idx), info
            continue

        # -- outcome -----------------------------------------------------
        if not outcome_matches(pred.outcomes, rec.outcome):
            if "outcome" in aspects:
                return (
                    bad(
                        f"outcome:{mk}:want={pred.outcomes[0]}:got={rec.outcome}",
                        f"expected {pred.outcomes}, got {rec.outcome} ({rec.value!r})",
                        idx,
                    ),
                    info,
                )
            if "writes" in aspects and tuple(pred.outcomes) == ("ok",) and rec.outcome in LIBERR_FAMILY:
                # the message is fine by the model and a reaction is owed, but it was refused and the reaction never written
                owed_missing = Counter(pred.reactions) - Counter(rec.writes)
                if pred.time_reply is not None and not any(TIMEREPLY.match(w) for w in rec.writes):
                    owed_missing["<time reply>"] += 1
                if owed_missing:
                    return bad(f"reaction-refused:{mk}:{rec.outcome}", f"owed {sorted(owed_missing)!r} but the message was refused: {rec.value!r}", idx), info
            if "writes" in aspects and pred.id_request is not None and rec.outcome in LIBERR_FAMILY and not any(IDRESP.match(w) for w in rec.writes):
                in_use = [int(k) for k in model.nodes]
                if (max(in_use) if in_use else 0) + 1 <= 254:
                    return bad(f"reaction-refused:{mk}:{rec.outcome}", f"an id request is owed an id response (ids are free) but was refused: {rec.value!r}", idx), info
            if query_owed_but_missing():
                return bad(f"version-query:missing:{mk}", f"no version query although the version is unknown (outcome {rec.outcome}, predicted {pred.outcomes})", idx), info
            info["diverged"] = True
            classes["diverged-elsewhere"] += 1
            return None, info
        if "outcome" in aspects and not pred.either:
            if rec.outcome == "missing_node" and getattr(rec.value, "node_id", None) != pred.err_node:
                return bad(f"error-names-wrong-node:{mk}", f"MissingNodeError.node_id={getattr(rec.value, 'node_id', None)!r}, want {pred.err_node}", idx), info
            if rec.outcome == "missing_child" and getattr(rec.value, "child_id", None) != pred.err_child:
                return bad(f"error-names-wrong-child:{mk}", f"MissingChildError.child_id={getattr(rec.value, 'child_id', None)!r}, want {pred.err_child}", idx), info
            if rec.outcome == "ok" and pred.fields is not None and not env.exact_fields(rec.value, pred.fields):
                return bad(f"yield-fields:{mk}", f"yielded {env.msg_fields(rec.value)}, decoded line says {pred.fields}", idx), info

        # -- writes, split into categories --------------------------------
        queries = [w for w in rec.writes if w == VERSION_QUERY]
        requests = [w for w in rec.writes if PRESREQ.match(w)]
        rest = [w for w in rec.writes if w != VERSION_QUERY and not PRESREQ.match(w)]
        held_other = info.get("other_pending")
        if held_other:
            # a non-set command the library held back earlier may be handed over now (C12's subject, not judged here)
            for written in list(rest):
                if held_other.get(written, 0) > 0 and written.split(";")[2] != "1":
                    held_other[written] -= 1
                    rest.remove(written)
        expected_rest: list[str] = []
        if rec.outcome == "ok":
            expected_rest += pred.reactions
            if pred.flush_node is not None:
                expected_rest += model.parked_for(pred.flush_node)
                if model.parked_for(pred.flush_node):
                    classes["wake-with-parked"] += 1
                    info.setdefault("flushed_nodes", set()).add(pred.flush_node)
                if any(k[0] != pred.flush_node for k in model.parked):
                    classes["wake-while-other-node-parked"] += 1
        observed: dict[str, Any] = {
            "snapshot": rec.after,
            "protocol_version": gateway.protocol_version,
            "rules": gateway.protocol.VERSION,
        }
        special = None
        if pred.id_request is not None:
            resp = [w for w in rest if IDRESP.match(w)]
            rest_wo = [w for w in rest if not IDRESP.match(w)]
            verdict = _check_id(pred, rec, model, resp)
            if verdict is not None:
                addressing = verdict[0] in ("id-answer-misaddressed", "id-answer-count", "id-refused-while-free")
                if "idalloc" in aspects or ("writes" in aspects and addressing):
                    return bad(verdict[0], verdict[1], idx), info
                info["diverged"] = True
                classes["diverged-elsewhere"] += 1
                return None, info
            observed["assigned_id"] = rec.assigned_id
            rest = rest_wo
            classes["id-request:" + rec.outcome] += 1
        if pred.time_reply is not None and rec.outcome == "ok":
            replies = [w for w in rest if TIMEREPLY.match(w)]
            rest = [w for w in rest if not TIMEREPLY.match(w)]
            want_n, want_c = pred.time_reply
            good = len(replies) == 1 and TIMEREPLY.match(replies[0]).group(1, 2) == (str(want_n), str(want_c))
            if good and "time_check" in hooks:
                special = hooks["time_check"](int(TIMEREPLY.match(replies[0]).group(3)))
                good = special is None
            if not good:
                if "writes" in aspects:
                    return bad("time-reply", f"time replies {replies!r} ({special or 'want exactly one addressed to asker'})", idx), info
                info["diverged"] = True
                classes["diverged-elsewhere"] += 1
                return None, info
            classes["time-reply"] += 1
        elsewhere = False
        if Counter(rest) != Counter(expected_rest):
            if "writes" in aspects:
                missing = Counter(expected_rest) - Counter(rest)
                extra = Counter(rest) - Counter(expected_rest)
                if pred.flush_node is not None or any(w.split(";")[2] == "1" and pred.fields and pred.fields[2] != 2 for w in extra):
                    sig = f"flush:{'missing' if missing else 'extra'}:{mk}"
                    if "flush" not in aspects and not (Counter(pred.reactions) - Counter(rest)) and info.get("sends_seen") and (pred.flush_node is not None or missing):
                        # only the release of parked commands at a wake differs: C07's subject (commands written in reaction to a message
                        # that is no wake are writes "no other received message produces": judged here)
                        info["diverged"] = True
                        classes["diverged-elsewhere"] += 1
                        return None, info
                else:
                    sig = f"reaction:{'missing' if missing else 'extra'}:{mk}"
                return bad(sig, f"wrote {rest!r}, expected {expected_rest!r}", idx), info
            elsewhere = True  # not this property's aspect: its own aspects are still judged for this step, then the history stops
        if expected_rest:
            classes["step-with-reaction-or-flush"] += 1

        # -- presentation requests ----------------------------------------
        want_req = []
        if rec.outcome in ("missing_node", "missing_child") and pred.presreq_node is not None:
            want_req = [f"{pred.presreq_node};255;3;0;19;\n"]
        if pred.presreq_either and rec.outcome in ("missing_node", "missing_child") and requests in ([], [f"{pred.missing_node_for_episode};255;3;0;19;\n"]):
            want_req = requests  # unspecified episode state (the node presented itself under 1.x rules)
        if requests != want_req:
            if "presreq" in aspects:
                if want_req and not requests:
                    sig = f"presreq-missing:{mk}"
                elif requests and not want_req:
                    why = "1x" if not model.is2x else ("outstanding" if rec.outcome.startswith("missing") else "not-missing")
                    sig = f"presreq-unexpected:{why}:{mk}"
                else:
                    sig = f"presreq-wrong:{mk}"
                return bad(sig, f"presentation requests {requests!r}, expected {want_req!r} (outstanding={sorted(model.outstanding)})", idx), info
            info["diverged"] = True
            classes["diverged-elsewhere"] += 1
            return None, info
        if want_req:
            classes["presreq-written"] += 1
        elif rec.outcome in ("missing_node", "missing_child") and model.is2x:
            classes["presreq-suppressed"] += 1

        if elsewhere:
            if query_owed_but_missing():
                return bad(f"version-query:missing:{mk}", "no version query although the version is unknown (and other writes of the step differ from the model)", idx), info
            info["diverged"] = True
            classes["diverged-elsewhere"] += 1
            return None, info

        # -- commit and compare post-state ---------------------------------
        model.commit(pred, rec.outcome, observed)
        want_q = 1 if model.version_query_expected(pred, rec.outcome) else 0
        if pred.note == "grey-spelling":
            want_q = len(queries)
        if len(queries) != want_q:
            if "vquery" in aspects:
                return bad(f"version-query:{'missing' if want_q else 'extra'}:{mk}", f"{len(queries)} version queries, expected {want_q} (version={model.version!r})", idx), info
            info["diverged"] = True
            classes["diverged-elsewhere"] += 1
            return None, info
        if want_q:
            classes["version-query"] += 1
        if "sleepflag" in aspects:
            want_flags = {k: v["sleeping"] for k, v in model.nodes.items()}
            got_flags = {k: v["sleeping"] for k, v in rec.after.items() if k in want_flags}
            if want_flags != got_flags:
                return bad(f"sleeping-flag:{mk}", f"nodes known to be sleeping: model {want_flags!r}, gateway {got_flags!r}", idx), info
        if rec.after != model.nodes:
            if "idalloc" in aspects:
                vanished = sorted(int(k) for k in model.nodes if k not in rec.after)
                if vanished:
                    # a registered id that disappears (without the application removing it) is free to be handed out again
                    return bad(f"registered-id-vanished:{mk}", f"nodes {vanished} were in the registry before this message and are gone after it", idx), info
            if "registry" in aspects:
                diff = _first_diff(model.nodes, rec.after)
                changed_on_error = rec.outcome != "ok" and rec.after != rec.before
                sig = f"registry-changed-on-error:{mk}" if changed_on_error else f"registry:{mk}:{diff[0]}"
                return bad(sig, f"registry differs at {diff[1]}: model {diff[2]!r}, gateway {diff[3]!r}", idx), info
            info["diverged"] = True
            classes["diverged-elsewhere"] += 1
            return None, info
        if "after_step" in hooks:
            verdict = hooks["after_step"](rec, gateway, transport, model)
            if verdict is not None:
                return bad(verdict[0], verdict[1], idx), info
        if rec.status == "ok" and hasattr(rec.value, "payload"):
            # the consumer owns what listen() yielded and may change it (e.g. to turn it into a reply): that is nobody else's business
            try:
                rec.value.payload, rec.value.ack = "edited-by-the-consumer", 1
            except Exception:  # noqa: BLE001
                pass
    if listener is not None:
        await listener.close()
    return None, info


def _check_id(pred: Pred, rec: StepRecord, model: RefController, resp: list[str]) -> tuple[str, str] | None:
    """C11 oracle for one id request."""
    in_use = {int(k) for k in model.nodes}
    if rec.outcome == "too_many":
        if resp:
            return "id-error-but-answer-written", f"TooManyNodesError and wrote {resp!r}"
        if rec.after != rec.before:
            return "id-error-changed-registry", "registry changed although the request failed"
        highest = max(in_use) if in_use else 0
        if highest + 1 <= 254:
            return "id-refused-while-free", f"TooManyNodesError although id {highest + 1} above the highest registered ({highest}) is free"
        return None
    if rec.outcome != "ok":
        return None
    if len(resp) != 1:
        return "id-answer-count", f"id responses written: {resp!r}"
    match = IDRESP.match(resp[0])
    node, child, new_id = int(match.group(1)), int(match.group(2)), int(match.group(3))
    if (node, child) != pred.id_request:
        return "id-answer-misaddressed", f"answer {resp[0]!r} for request from {pred.id_request}"
    if not 1 <= new_id <= 254:
        return "id-out-of-range", f"handed out id {new_id}"
    if new_id in in_use:
        return "id-not-fresh", f"handed out id {new_id}, already in registry {sorted(in_use)}"
    if rec.registered_at_write is False:
        return "id-not-registered-before-answer", f"id {new_id} was not in the registry when the answer was written"
    if str(new_id) not in rec.after:
        return "id-not-registered", f"id {new_id} handed out but not registered"
    extra = set(rec.after) - set(rec.before) - {str(new_id)}
    if extra:
        return "id-extra-nodes", f"registry gained {sorted(extra)} besides {new_id}"
    rec.assigned_id = new_id
    return None


def _first_diff(want: dict, got: dict) -> tuple[str, str, Any, Any]:
    for key in sorted(set(want) | set(got)):
        if key not in got:
            return "node-missing", f"node {key}", want[key], None
        if key not in want:
            return "node-extra", f"node {key}", None, got[key]
        for attr in want[key]:
            if attr == "children":
                wch, gch = want[key]["children"], got[key]["children"]
                for ckey in sorted(set(wch) | set(gch)):
                    if ckey not in gch:
                        return "child-missing", f"node {key} child {ckey}", wch[ckey], None
                    if ckey not in wch:
                        return "child-extra", f"node {key} child {ckey}", None, gch[ckey]
                    for cattr in wch[ckey]:
                        if wch[ckey][cattr] != gch[ckey].get(cattr):
                            return f"child-{cattr}", f"node {key} child {ckey} {cattr}", wch[ckey][cattr], gch[ckey].get(cattr)
            elif want[key][attr] != got[key].get(attr):
                return attr, f"node {key} {attr}", want[key][attr], got[key].get(attr)
    return "unknown", "?", want, got


async def run_plain(case: dict, *, batch: bool) -> dict:
    """Run the rx/flag ops of a history without the model; one listen() per line or one loop over a queue."""
    gateway, transport = env.make_gateway(case.get("version"), metric=case.get("metric", True))
    env.install_registry(gateway.nodes, case.get("registry") or {})
    lines = [op[1] for op in case["ops"] if op[0] == "rx"]
    events: list = []
    if not batch:
        for idx, line in enumerate(lines):
            transport.step = idx
            status, value = await env.rx(gateway, line)
            events.append(["ok", env.msg_fields(value)] if status == "ok" else [classify(status, value), repr(type(value).__name__)])
    else:
        transport.inbox.extend(lines)
        guard = 0
        while transport.inbox and guard <= len(lines) + 1:
            guard += 1
            agen = gateway.listen()
            try:
                async for msg in agen:
                    events.append(["ok", env.msg_fields(msg)])
            except env.Drained:
                pass
            except Exception as err:  # noqa: BLE001
                status = "liberr" if isinstance(err, env.AIOMySensorsError) else "leak"
                events.append([classify(status, err), repr(type(err).__name__)])
            finally:
                await agen.aclose()
    return {
        "events": events,
        "writes": [w for _s, w in transport.writes],
        "snapshot": env.snapshot(gateway.nodes),
        "version": gateway.protocol_version,
    }


# ---------------------------------------------------------------------------
# one event of every kind x one environment dimension at a time

TOUR_REGISTRY = {
    "4": {"node_id": 4, "node_type": 17, "protocol_version": "2.0", "sketch_name": "s", "sketch_version": "1", "battery_level": 10, "heartbeat": 0, "sleeping": False,
          "children": {"1": {"child_id": 1, "child_type": 6, "description": "temp", "values": {"0": "20"}}, "2": {"child_id": 2, "child_type": 3, "description": "", "values": {"2": "1"}}}},
    "5": {"node_id": 5, "node_type": 17, "protocol_version": "2.0", "sketch_name": "", "sketch_version": "", "battery_level": 0, "heartbeat": 0, "sleeping": True,
          "children": {"1": {"child_id": 1, "child_type": 3, "description": "", "values": {}}}},
    # children of sensor types that only some protocol versions list (S_INFO = 36 since 2.0), or none does
    "3": {"node_id": 3, "node_type": 18, "protocol_version": "2.3.2", "sketch_name": "", "sketch_version": "", "battery_level": 0, "heartbeat": 0, "sleeping": False,
          "children": {"1": {"child_id": 1, "child_type": 36, "description": "", "values": {"47": "text"}}, "2": {"child_id": 2, "child_type": 99, "description": "", "values": {}},
                       "3": {"child_id": 3, "child_type": 0, "description": "", "values": {}}}},
}
TOUR_EVENTS = (
    [["rx", "4;1;1;0;0;21.5\n"]], [["rx", "4;1;2;0;0;\n"]], [["rx", "4;255;0;0;17;2.1.0\n"]], [["rx", "4;3;0;0;6;new child\n"]], [["rx", "4;255;3;0;0;77\n"]],
    [["rx", "4;255;3;0;11;sketch\n"]], [["rx", "4;255;3;0;12;1.1\n"]], [["rx", "4;255;3;0;6;0\n"]], [["rx", "4;255;3;0;1;\n"]], [["rx", "255;255;3;0;3;\n"]],
    [["rx", "0;255;3;0;2;2.2.0\n"]], [["rx", "0;255;3;0;2;1.5.1\n"]], [["rx", "0;255;0;0;18;2.1.1\n"]], [["rx", "0;255;3;0;14;\n"]], [["rx", "0;255;3;0;9;log line\n"]],
    [["rx", "9;1;1;0;0;1\n"], ["rx", "9;1;1;0;0;2\n"]], [["rx", "4;9;1;0;0;1\n"], ["rx", "4;9;1;0;0;2\n"]], [["rx", "4;255;3;0;22;7\n"]], [["rx", "4;255;3;0;32;500\n"]],
    [["rx", "4;255;3;0;33;500\n"]], [["rx", "4;255;3;0;21;\n"]], [["rx", "4;255;3;0;18;\n"]], [["rx", "4;255;4;0;0;00\n"]], [["rx", "garbage\n"]], [["rx", "\n"]],
    [["rx", "4;1;1;0;0;\n"]], [["rx", "300;1;1;0;0;1\n"]], [["rx", "255;255;3;0;9;from a node without an id\n"]],
    [["send", [5, 1, 1, 0, 2, "1"], True], ["rx", "5;255;3;0;22;1\n"], ["rx", "5;255;3;0;22;2\n"]],
    [["send", [5, 1, 1, 0, 2, "1"], True], ["send", [5, 1, 1, 0, 2, "0"], True], ["rx", "5;1;1;0;2;1\n"], ["rx", "5;255;3;0;32;100\n"]],
    [["send", [4, 1, 1, 0, 0, "9"], True]], [["send", [4, 255, 3, 0, 18, ""], True], ["rx", "4;255;3;0;22;3\n"]],
    [["flag", 4, "reboot", True], ["rx", "4;1;1;0;0;3\n"], ["rx", "4;1;1;0;0;4\n"]],
    [["rx", "4;1;1;0;0;21.5\n"], ["session"], ["rx", "4;9;1;0;0;1\n"], ["session"], ["rx", "4;9;1;0;0;2\n"], ["rx", "4;1;1;0;0;22\n"], ["rx", "4;255;3;0;22;7\n"]],
    [["send", [5, 1, 1, 0, 2, "1"], True], ["session"], ["session"], ["rx", "5;255;3;0;22;1\n"]],
    [["install", 12, "update"], ["install", 13, "setdefault"], ["install", 14, "ior"], ["rx", "255;255;3;0;3;\n"], ["rx", "12;255;3;0;0;5\n"]],
    [["install", 6, "update"], ["rx", "255;255;3;0;3;\n"]], [["install", 6, "setdefault"], ["rx", "255;255;3;0;3;\n"]], [["install", 6, "ior"], ["rx", "255;255;3;0;3;\n"]],
    [["send", [3, 1, 1, 0, 47, "hello"], True]], [["send", [3, 2, 1, 0, 2, "1"], True]], [["send", [3, 3, 1, 0, 2, "1"], False]], [["rx", "3;1;1;0;47;txt\n"], ["rx", "3;1;2;0;47;\n"]],
    [["rx", "3;2;1;0;2;1\n"], ["rx", "3;2;2;0;2;\n"]],
    # stored text with characters that some string methods take for line boundaries or white space, echoed back on request
    [["rx", "4;1;1;0;0;a\x0bb\n"], ["rx", "4;1;2;0;0;\n"]], [["rx", "4;1;1;0;0;a\x0cb\x1cc\x1dd\x1ee\n"], ["rx", "4;1;2;0;0;\n"]], [["rx", "4;1;1;0;0;a\x85b\n"], ["rx", "4;1;2;0;0;\n"]],
    [["rx", "4;1;1;0;0;a\u2028b\u2029c\n"], ["rx", "4;1;2;0;0;\n"]], [["rx", "4;1;1;0;0;a\rb\n"], ["rx", "4;1;2;0;0;\n"]], [["rx", "4;1;1;0;0;a b\tc;d;;e\n"], ["rx", "4;1;2;0;0;\n"]],
    [["rx", "4;1;1;0;0;\u00e5\u00e4\u00f6 \u65e5\u672c \U0001f600\n"], ["rx", "4;1;2;0;0;\n"]],
    [["send", [5, 1, 1, 0, 2, "1"], True], ["flag", 5, "reboot", True], ["rx", "5;255;3;0;22;1\n"], ["rx", "5;255;3;0;22;2\n"]],
    [["flag", 5, "reboot", True], ["send", [5, 1, 1, 0, 2, "1"], True], ["rx", "5;1;1;0;2;0\n"], ["rx", "5;255;3;0;32;1\n"]],
    # a sleeping node is asked to present itself (it reported for a child it never presented) with a command parked for it, wakes, reports again
    [["send", [5, 1, 1, 0, 2, "1"], True], ["rx", "5;9;1;0;0;1\n"], ["rx", "5;255;3;0;22;1\n"], ["rx", "5;255;3;0;32;1\n"], ["rx", "5;9;1;0;0;2\n"], ["rx", "5;255;3;0;22;2\n"]],
    # what the application sent with the ack flag comes back as the node's echo: a received line like any other
    [["send", [4, 1, 1, 1, 0, "9"], True], ["rx", "4;1;1;1;0;9\n"], ["rx", "4;1;1;1;0;9\n"]], [["send", [4, 255, 3, 1, 18, ""], True], ["rx", "4;255;3;1;18;\n"]],
    # the application sends internal commands (reboot, heartbeat request, presentation request) to a sleeper with a command parked, and to a node it asked to present itself
    [["send", [5, 1, 1, 0, 2, "1"], True], ["send", [5, 255, 3, 0, 13, ""], True], ["rx", "5;255;3;0;22;1\n"], ["rx", "5;255;3;0;32;1\n"]],
    [["rx", "9;1;1;0;0;1\n"], ["send", [9, 255, 3, 0, 13, ""], True], ["send", [9, 255, 3, 0, 18, ""], True], ["rx", "9;1;1;0;0;2\n"]],
    [["rx", "4;9;1;0;0;1\n"], ["send", [4, 255, 3, 0, 13, ""], True], ["send", [4, 1, 1, 0, 0, "x"], True], ["rx", "4;9;1;0;0;2\n"]],
    # a quiet network: the application's wait for a message times out, it listens again, then traffic resumes
    [["rx_after_idle", "4;255;0;0;17;2.1.0\n", 1], ["rx", "4;3;0;0;6;c\n"], ["rx_after_idle", "4;3;1;0;0;5\n", 2], ["rx", "4;3;2;0;0;\n"], ["rx_after_idle", "9;1;1;0;0;1\n", 1], ["rx", "4;255;3;0;0;9\n"]],
    [["rx_after_idle", "0;255;3;0;2;2.2.0\n", 1], ["rx_after_idle", "0;255;3;0;14;\n", 1], ["rx", "4;255;3;0;32;5\n"]],
    # a command whose text starts with white space, parked and released: the line written is the line a direct send writes
    # (trailing white space is outside the payload domain: the line codec and the MQTT transport strip it)
    [["send", [5, 1, 1, 0, 47, "  padded"], True], ["send", [4, 1, 1, 0, 47, " \tpadded"], True], ["rx", "5;255;3;0;22;1\n"], ["rx", "5;255;3;0;32;1\n"]],
    # an unknown node is asked to present itself, does, and is asked again when it reports for a child it did not present (same request line twice)
    [["rx", "9;1;1;0;0;1\n"], ["rx", "9;255;0;0;17;2.0\n"], ["rx", "9;1;1;0;0;2\n"], ["rx", "9;1;0;0;6;c\n"], ["rx", "9;2;1;0;0;3\n"]],
    # ids are asked for in three sessions of the same gateway object
    [["rx", "255;255;3;0;3;\n"], ["session"], ["rx", "255;255;3;0;3;\n"], ["session"], ["rx", "255;255;3;0;3;\n"], ["session"], ["rx", "255;255;3;0;3;\n"]],
    # the same report twice with another value in between, texts that are no version numbers
    [["rx", "4;255;3;0;12;1.0-beta\n"], ["rx", "4;255;3;0;12;rev B\n"], ["rx", "4;255;3;0;12;1.0-beta\n"], ["rx", "4;255;3;0;11;a\n"], ["rx", "4;255;3;0;11;b\n"]],
    [["rx", "4;255;0;0;17;rev B\n"], ["rx", "4;255;0;0;17;1.0-beta\n"], ["rx", "4;255;3;0;0;x\n"], ["rx", "4;255;3;0;0;12\n"]],
    # hours and days pass on the process clock between the send and the wake
    [["send", [5, 1, 1, 0, 2, "1"], True], ["tick", 4000], ["rx", "5;255;3;0;22;1\n"], ["rx", "5;255;3;0;32;1\n"]],
    [["send", [5, 1, 1, 0, 2, "1"], True], ["tick", 86400 * 3], ["rx", "5;9;1;0;0;1\n"], ["tick", 86400 * 40], ["rx", "5;255;3;0;22;1\n"], ["rx", "5;255;3;0;32;1\n"], ["rx", "5;9;1;0;0;2\n"]],
    # three sends to one key with the value changed and changed back, then the wake
    [["send", [5, 1, 1, 0, 2, "1"], True], ["send", [5, 1, 1, 0, 2, "0"], True], ["send", [5, 1, 1, 0, 2, "1"], True], ["rx", "5;255;3;0;22;1\n"], ["rx", "5;255;3;0;32;1\n"], ["rx", "5;255;3;0;22;2\n"]],
)
ENV_DIMS = (
    {}, {"debug_log": True}, {"warnings": "error"}, {"via": "mqtt"}, {"via": "stream"}, {"bystander": True}, {"persistence_file": "scratch"}, {"persistence_file": "unwritable"},
    {"ctx": "thread"}, {"tasks": True}, {"listen_mode": "persistent"}, {"via": "mqtt", "listen_mode": "persistent", "debug_log": True},
    {"eager_tasks": True}, {"eager_tasks": True, "tasks": True},
)


def env_sweep(versions=(None, "1.5", "2.1", "2.2"), dims=ENV_DIMS):
    """Short histories (a fixed registry, then one event of every kind) under every environment dimension, one at a time."""
    for version in versions:
        for events in TOUR_EVENTS:
            for dim in dims:
                yield {"version": version, "metric": True, "registry": TOUR_REGISTRY, "ops": [list(op) for op in events], **dim}


def switch_sweep_cases(versions=(None, "1.5", "2.0", "2.2")):
    """Hidden switches: one message of every internal type (payload 0 and 1, from the gateway and from a known node) arrives first,
    then the whole tour of events in one history - no earlier message may change how the later ones are treated."""
    tour = [list(op) for events in TOUR_EVENTS for op in events if not any(o[0] in ("session", "install") for o in events)]
    for version in versions:
        for mtype in range(0, 34):
            if mtype == 2:
                continue
            for sender in (0, 4):
                for payload in ("0", "1"):
                    yield {"kind": "envsweep", "version": version, "metric": True, "registry": TOUR_REGISTRY, "switch": f"{sender}:{mtype}:{payload}",
                           "ops": [["rx", f"{sender};255;3;0;{mtype};{payload}\n"]] + [list(op) for op in tour]}


def env_sweep_cases(versions=(None, "1.5", "2.1", "2.2"), dims=ENV_DIMS):
    for hist in env_sweep(versions, dims):
        yield {"kind": "envsweep", **hist}


def sleeper_sweep_cases(versions=(None, "1.5", "2.0", "2.2")):
    """A sleeping node with a command parked sends one message of every kind that is NOT its wake (every internal type, a value, a request,
    a presentation, a stream message), then wakes: nothing but the wake releases the command, and the wake still does."""
    others = ["5;1;1;0;2;0\n", "5;1;2;0;2;\n", "5;1;0;0;3;again\n", "5;255;0;0;17;2.0\n", "5;255;4;0;0;00\n", "5;7;1;0;0;1\n"]
    lines = [f"5;255;3;0;{mtype};{payload}\n" for mtype in range(0, 34) for payload in ("", "50")] + others
    for version in versions:
        for line in lines:
            for dim in ({}, {"via": "mqtt"}, {"listen_mode": "persistent", "tasks": True}):
                yield {"kind": "envsweep", "version": version, "metric": True, "registry": TOUR_REGISTRY, "sleeper": line.strip(), **dim,
                       "ops": [["send", [5, 1, 1, 0, 2, "1"], True], ["rx", line], ["rx", "5;255;3;0;22;1\n"], ["rx", "5;255;3;0;32;1\n"], ["rx", "5;255;3;0;22;2\n"]]}


def all_sweep_cases():
    yield from env_sweep_cases()
    yield from switch_sweep_cases()
    yield from sleeper_sweep_cases()


def opt_sweep_cases(tier: str):
    """What the pass under `python -O` runs for the driven properties: the tour under the plain environment and a few others."""
    yield from env_sweep_cases(dims=({}, {"tasks": True}, {"persistence_file": "scratch"}, {"via": "mqtt"}))


def run_env_case(case: dict, aspects: frozenset[str], hooks: dict | None = None) -> Outcome:
    """Run one case of the environment sweep for a property that owns `aspects`."""
    with env.eager_tasks(bool(case.get("eager_tasks"))):
        bad, info = env.run(run_history(case, aspects, hooks=hooks))
    dims = tuple(f"{k}={case[k]}" for k in ("via", "debug_log", "warnings", "bystander", "persistence_file", "ctx", "tasks", "listen_mode", "eager_tasks", "python_O") if case.get(k))
    classes = ("envsweep",) + (dims or ("env=plain",)) + tuple(sorted(info["classes"]))
    if bad is not None:
        bad.classes = classes
        return bad
    return Outcome(ok=True, nontrivial=bool(dims) and not info.get("diverged"), classes=classes)
