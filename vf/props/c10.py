"""C10 - unknown node or child triggers one presentation request per episode (DESIGN 4.10)."""

from __future__ import annotations

from hypothesis import strategies as st

from vf import drive, env, gen
from vf.runner import Outcome

ID = "C10"
LEVEL = "exploration"
DESIGN_REF = "4.10"
RULE = (
    "cases = protocol version (all five) x small initial registry x history (<=30 lines) from nodes 5,6,7 mixing every kind that can hit a "
    "missing node or child (set, req, child presentation, stream, battery, sketch name/version, discover response, heartbeat response, "
    "pre-sleep), node presentations, child presentations and kinds that never miss (config, time, id request, log) x a set of failing "
    "presentation-request write attempts. Oracle (reference controller, outstanding-set model): with 2.x rules a step rejected for a missing "
    "node/child of n writes exactly one 'n;255;3;0;19;' iff n is not outstanding, n becomes outstanding only if that write succeeded, a node "
    "presentation of n re-arms n, nothing else does, nodes are independent; with 1.x rules no request is ever written. Only type-19 writes "
    "are compared. Non-trivial = re-arm after a presentation, two nodes with overlapping episodes, or a failed request write followed by a "
    "retry; distinct = distinct case JSON."
    " Round 6: `hang_requests` - a request write that never completes until the application's receive timeout (virtual time) cancels it; read errors among the events."
    ' Round 7: application sends (presentation request, reboot, req, set) among the events and before the first rejected message.'
    ' Round 8: `flag` ops.'
    ' Round 9: all 256 node ids enumerated.'
    ' Round 10: every internal type with payload 0/1 arrives before the first rejected message.'
    ' Round 11: environment sweep (see C03); on a leak an owed presentation request is still reported.'
    ' Round 12: hidden-switch sweep; tour events with application sends between two rejected messages; pass under `python -O`.'
    ' Round 13: tour event asked / presents itself / asked again (under every transport kind).'
    ' Round 14: episodes of nodes 0 / 5 / 254 whose presentation carries every kind of version text (a refused gateway presentation that registered the node ends the episode); sleeper sweep.'
)
ASSUMPTIONS = [
    "a failed request write surfaces as a transport error from that listen step (any library error is accepted)",
]
DELETABLE = ("ops", "fail_requests")
ASPECTS = frozenset({"presreq"})


def budgets(tier: str) -> dict:
    if tier == "quick":
        return {"examples": 2400, "shards": 4}
    return {"examples": 80000, "shards": 16}


def _ops():
    node = st.sampled_from((5, 5, 6, 6, 7))
    child = st.sampled_from((0, 1))
    missing_kinds = st.one_of(
        st.builds(lambda n, c: f"{n};{c};1;0;0;1\n", node, child),
        st.builds(lambda n, c: f"{n};{c};2;0;0;\n", node, child),
        st.builds(lambda n, c: f"{n};{c};0;0;6;child\n", node, child),
        st.builds(lambda n, t: f"{n};255;4;0;{t};\n", node, st.sampled_from((0, 2))),
        st.builds(lambda n, t, p: f"{n};255;3;0;{t};{p}\n", node, st.sampled_from((0, 11, 12, 21, 22, 32)), st.sampled_from(("1", "50"))),
    )
    present = st.builds(lambda n, t, v: f"{n};255;0;0;{t};{v}\n", node, st.sampled_from((17, 17, 18, 18, 0, 23, 6)), st.sampled_from(("2.1", "2.0", "1.4", "")))
    never = st.one_of(
        st.builds(lambda n, t: f"{n};255;3;0;{t};\n", node, st.sampled_from((6, 1, 9, 18))),
        st.sampled_from(("255;255;3;0;3;\n", "junk\n", "0;255;3;0;14;ready\n")),
        st.sampled_from(("0;255;0;0;18;2.1\n", "0;255;0;0;18;2.2.0\n", "0;255;3;0;2;2.0.1\n", "0;255;3;0;2;2.2\n", "0;255;0;0;18;2.0\n")),
    )
    lines = gen.with_ack(gen.weighted((6, missing_kinds), (2, present), (2, never))).map(lambda l: ["rx", l])
    pause = st.sampled_from((1, 59, 61, 600, 3600, 86400)).map(lambda t: ["sleep", t])
    events = st.sampled_from((["save"], ["reload"], ["session"], ["read_error", "read"], ["read_error", "failed"], ["flag", 5, "reboot", True], ["flag", 6, "reboot", True], ["flag", 7, "reboot", True], ["send", [5, 255, 3, 0, 19, ""], None], ["send", [1, 255, 3, 0, 19, ""], None],
                              ["send", [2, 255, 3, 0, 19, ""], False]))
    return st.lists(gen.weighted((20, lines), (2, pause), (1, events)), min_size=8, max_size=30)


_registry = st.sampled_from(
    (
        {},
        {},
        {"5": {"children": {"0": {"child_type": 6}}}},
        {"5": {}, "6": {"children": {"1": {"child_type": 3}}, "sleeping": True}},
    )
)


MISSING_KINDS = ("5;1;1;0;0;1\n", "5;1;2;1;0;\n", "5;1;0;0;6;child\n", "5;255;4;0;0;\n", "5;255;3;0;0;50\n", "5;255;3;1;11;name\n", "5;255;3;0;22;1\n", "5;255;3;0;32;1\n")
BETWEEN = (
    ["rx", "5;255;0;0;17;2.1\n"], ["rx", "5;255;0;1;18;1.4\n"], ["rx", "5;255;0;0;0;\n"], ["rx", "6;255;0;0;17;2.1\n"], ["rx", "0;255;0;0;18;2.1\n"], ["rx", "0;255;0;0;18;2.2.0\n"],
    ["rx", "0;255;3;0;2;2.0.1\n"], ["rx", "0;255;3;1;2;2.2\n"], ["rx", "5;1;0;0;6;child\n"], ["rx", "5;255;3;0;6;0\n"], ["rx", "5;255;3;0;1;\n"], ["rx", "5;255;3;0;18;\n"],
    ["rx", "6;1;1;0;0;1\n"], ["rx", "255;255;3;0;3;\n"], ["rx", "5;7;3;0;3;\n"], ["rx", "0;255;3;0;14;ready\n"], ["rx", "0;255;3;0;9;log\n"], ["rx", "junk\n"],
    ["rx", "5;255;3;0;19;\n"], ["rx", "5;255;3;0;21;\n"], ["session"], ["sleep", 61], ["sleep", 86400], ["install", 5], ["install", 6], ["save"], ["reload"], ["read_error", "read"], ["read_error", "failed"], ["read_error", "base"],
    # the application itself sends a presentation request / other commands to the node
    ["send", [5, 255, 3, 0, 19, ""], None], ["send", [5, 255, 3, 1, 19, ""], False], ["send", [6, 255, 3, 0, 19, ""], None], ["send", [5, 255, 3, 0, 13, ""], None], ["send", [5, 1, 2, 0, 0, ""], None],
    ["send", [5, 1, 1, 0, 0, "1"], None],
    # application-set node state
    ["flag", 5, "reboot", True], ["flag", 5, "reboot", False], ["flag", 6, "reboot", True],
)


def opt_cases(tier: str):
    """Cases also executed by an interpreter started with -O (see vf/optpass.py)."""
    return drive.opt_sweep_cases(tier)


def enumerate_cases(tier: str):
    """rejected message, ONE event of every kind, rejected message again - per version, with and without a known node."""
    # one event of every kind under every environment dimension (transport kind, logging, warnings, a bystander gateway, registry file, ...)
    yield from drive.all_sweep_cases()
    for version in ("2.0", "2.2", "1.5"):
        for registry in ({}, {"5": {"children": {"0": {"child_type": 6}}}}):
            for first in MISSING_KINDS:
                for between in BETWEEN:
                    for second in (MISSING_KINDS[0], MISSING_KINDS[4]):
                        yield {"version": version, "registry": registry, "fail_requests": [], "listen_mode": "persistent" if len(first) % 2 else "fresh",
                               "ops": [["rx", first], between, ["rx", second], ["rx", "6;9;1;0;0;1\n"]]}
                for event in BETWEEN:
                    if event[0] in ("send", "flag"):
                        # ... also BEFORE the first rejected message of the episode
                        yield {"version": version, "registry": registry, "fail_requests": [], "listen_mode": "fresh", "ops": [event, ["rx", first], ["rx", MISSING_KINDS[0]]]}


    # the node of the episode is the gateway's own node 0 (its presentation doubles as a version report and may be refused AFTER registering it), or an
    # ordinary node; the presentation carries every kind of version text; then it reports for a child it did not present, twice
    for version in ("2.0", "2.1", "2.2", "1.5"):
        for node in (0, 5, 254):
            for ntype in (17, 18):
                for text in ("", "abc", "2.x", "9.9", "0.1", "2.1", "1.4", "2.2.0", "v2.2", " 2.0", "2.0-beta"):
                    for mode in ("fresh", "persistent"):
                        yield {"version": version, "registry": {}, "fail_requests": [], "listen_mode": mode,
                               "ops": [["rx", f"{node};1;1;0;0;1\n"], ["rx", f"{node};1;1;0;0;2\n"], ["rx", f"{node};255;0;0;{ntype};{text}\n"], ["rx", f"{node};1;1;0;0;3\n"], ["rx", f"{node};1;1;0;0;4\n"],
                                       ["rx", f"{node};255;0;0;{ntype};2.1\n"], ["rx", f"{node};9;1;0;0;5\n"], ["rx", "6;9;1;0;0;1\n"]]}
    # every internal type with payload 0 / 1 (from the gateway, from a known node) BEFORE the first rejected message: nothing switches the requests off
    for version in ("2.0", "2.2", "1.5"):
        for mtype in [t for t in range(0, 35) if t not in (2, 3, 4)]:
            for text in ("0", "1"):
                ops = [["rx", "6;255;0;0;17;2.1\n"], ["rx", f"0;255;3;0;{mtype};{text}\n"], ["rx", f"6;255;3;1;{mtype};{text}\n"], ["rx", "5;1;1;0;0;1\n"], ["rx", "5;1;1;0;0;2\n"], ["rx", "6;9;1;0;0;1\n"],
                       ["rx", "7;255;3;0;0;50\n"]]
                yield {"version": version, "registry": {}, "fail_requests": [], "listen_mode": "persistent" if mtype % 2 else "fresh", "ops": ops}
    # the whole id space: every node id gets its request (once), also 0, 254 and 255
    for version in ("2.0", "2.2", "1.5"):
        for start in range(0, 256, 32):
            ops = []
            for node in range(start, start + 32):
                ops += [["rx", f"{node};1;1;0;0;1\n"], ["rx", f"{node};1;2;0;0;\n"]]
            for node in range(start, start + 32, 5):
                ops += [["rx", f"{node};255;0;0;17;2.1\n"], ["rx", f"{node};9;1;0;0;1\n"], ["rx", f"{node};9;1;0;0;2\n"]]
            yield {"version": version, "registry": {}, "fail_requests": [], "listen_mode": "persistent" if start % 64 else "fresh", "ops": ops}
    # a request whose write hangs until the application's receive timeout cancels it was never sent either
    for version in ("2.0", "2.1", "2.2"):
        for registry in ({}, {"5": {"children": {"0": {"child_type": 6}}}}):
            for first in MISSING_KINDS:
                for hangs in ([0], [0, 1], [1]):
                    for mode in ("fresh", "persistent"):
                        yield {"version": version, "registry": registry, "fail_requests": [], "hang_requests": hangs, "rx_timeout": 30, "listen_mode": mode,
                               "ops": [["rx", first], ["rx", MISSING_KINDS[0]], ["rx", "5;255;0;0;17;2.1\n"], ["rx", MISSING_KINDS[4] if not registry else "5;9;1;0;0;1\n"], ["rx", first], ["rx", MISSING_KINDS[0]]]}


def strategy(tier: str):
    return st.fixed_dictionaries(
        {
            "version": st.sampled_from(("2.0", "2.1", "2.2", "2.0", "2.1", "2.2", "1.4", "1.5")),
            "registry": _registry,
            "ops": _ops(),
            "listen_mode": st.sampled_from(("fresh", "persistent")),
            "debug_log": st.sampled_from((False, False, True)),
            "fail_requests": st.one_of(st.just([]), st.lists(st.integers(0, 6), max_size=3, unique=True).map(sorted)),
            "hang_requests": st.one_of(st.just([]), st.just([]), st.lists(st.integers(0, 6), max_size=2, unique=True).map(sorted)),
            "rx_timeout": st.just(30),
        }
    )


def run_case(case: dict) -> Outcome:
    if case.get("kind") == "envsweep":
        return drive.run_env_case(case, ASPECTS)
    fails = set(case.get("fail_requests", []))
    state = {"req_attempts": 0, "failed": 0, "retry_after_fail": False, "failed_nodes": set(), "rearm": False, "presented": set(), "episodes": {}}

    hangs = set(case.get("hang_requests", []))

    def setup(gateway, transport, model):
        def fail_pred(line: str) -> bool:
            if not drive.PRESREQ.match(line):
                return False
            idx = state["req_attempts"]
            state["req_attempts"] += 1
            return idx in fails

        def hang_pred(line: str) -> bool:
            # this request's write never completes; the application's receive timeout cancels it
            if not drive.PRESREQ.match(line) or state["req_attempts"] not in hangs:
                return False
            state["req_attempts"] += 1
            state["hung"] = state.get("hung", 0) + 1
            return True

        transport.fail_pred = fail_pred
        if hangs:
            transport.hang_pred = hang_pred

    def fault_step(rec, model):
        pred = rec.pred
        failed_lines = [l for _s, l, f in rec.attempts if f]
        if pred.presreq_node is None or failed_lines != [f"{pred.presreq_node};255;3;0;19;\n"]:
            return ("presreq-unexpected-attempt", f"attempted {failed_lines!r} although no request was due (outstanding={sorted(model.outstanding)})")
        if rec.outcome == "cancelled":
            pass  # the receive was abandoned while the request's write hung: nothing was written
        elif rec.outcome == "leak" or rec.outcome == "ok":
            return ("failed-request-not-reported", f"request write failed but the step gave {rec.outcome}")
        others = [w for w in rec.writes if drive.PRESREQ.match(w)]
        if others:
            return ("presreq-wrong", f"extra requests {others!r} in a step whose request write failed")
        state["failed"] += 1
        state["failed_nodes"].add(pred.presreq_node)
        model.commit(pred, "missing_node", {"presreq_ok": False})
        return None

    def after_step(rec, gateway, transport, model):
        pred = rec.pred
        if pred is None:
            return None
        if any(drive.PRESREQ.match(w) for w in rec.writes) and pred.fields:
            node = pred.fields[0]
            if node in state["failed_nodes"]:
                state["retry_after_fail"] = True
            if node in state["presented"]:
                state["rearm"] = True
        if pred.fields and pred.fields[2] == 0 and pred.fields[1] == 255 and rec.outcome == "ok":
            if pred.fields[0] in state["episodes"]:
                state["presented"].add(pred.fields[0])
        if pred.fields and rec.outcome in ("missing_node", "missing_child"):
            state["episodes"][pred.fields[0]] = True
        return None

    from vf.vloop import run_virtual

    # on the virtual-time loop: pauses of minutes or hours between messages cost nothing
    (bad, info), _loop = run_virtual(lambda: drive.run_history(case, ASPECTS, hooks={"setup": setup, "fault_step": fault_step, "after_step": after_step}))
    classes = tuple(sorted(info["classes"])) + (f"version={case['version']}",)
    if state["failed"]:
        classes += ("request-write-failed",)
    if state["retry_after_fail"]:
        classes += ("retry-after-failed-request",)
    if state["rearm"]:
        classes += ("re-armed-after-presentation",)
    if bad is not None:
        bad.classes = classes
        return bad
    model = info["model"]
    overlapping = len(state["episodes"]) >= 2 and case["version"].startswith("2")
    nontrivial = state["rearm"] or state["retry_after_fail"] or overlapping
    return Outcome(ok=True, nontrivial=nontrivial, classes=classes)
