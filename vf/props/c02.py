"""C02 - decoder accepts exactly the well-formed lines and decodes them literally (DESIGN 4.2)."""

from __future__ import annotations

import itertools

from hypothesis import strategies as st
from marshmallow import ValidationError

from aiomysensors.exceptions import InvalidMessageError
from aiomysensors.model.message import MessageSchema
from aiomysensors.model.protocol import get_protocol

from vf import env, gen
from vf.codec_ref import VERSIONS, payload_matches, ref_verdict
from vf.runner import Outcome, fail

ID = "C02"
LEVEL = "exploration"
DESIGN_REF = "4.2"
RULE = (
    "cases = protocol version x line; lines come from (i) a field grammar: a well-formed message with 0-2 numeric "
    "fields replaced by a class representative (boundary, negative, huge, empty, non-numeric, padded/odd-but-int()-parsable), "
    "cut to 0-5 fields or extended, with line-ending variants, (ii) single-character edits of valid lines, (iii) short text over "
    "'0-9;-+ .a\\n', (iv) an enumerated product of per-field representatives for 0-7 fields. Oracle: acceptor written from the "
    "statement (>=6 fields, five integers, ranges, cross-field rules); canonical spelling => definite accept (decoded ints equal the "
    "spelled ones, payload literal) or definite reject (ValidationError from MessageSchema.load and InvalidMessageError from "
    "Gateway.listen, nothing else); a non-canonical int()-parsable spelling is don't-care on the verdict but never another exception. "
    "Non-trivial = field count != 6, or a boundary/over-range numeric, or a cross-field rule decided; distinct = distinct (version, line)."
    ' Round 5: cases also run with the library logging at DEBUG, with set-up in a foreign context/thread, and with the same line spelled as MQTT topic levels + payload through a real MQTTClient on a fake broker (same reference verdict).'
    ' Round 6: the MQTT spelling uses 8 topic prefixes (incl. the README default; digits that also occur in ids); a well-formed line rejected on that path is reported.'
    ' Round 7: format-string metacharacters among the odd spellings; id-request warm-ups enumerated.'
    ' Round 13: `known` (the sender and a stored value are in the registry: the yielded fields still spell the line).'
    ' Round 12: `presend` (the controller sent the same message just before the line arrives: it is still accepted or rejected, never swallowed).'
    ' Round 14: two malformed header fields at once (template-looking text x out-of-domain value, every ordered pair of positions).'
    ' Round 8: `stream` path (the line as bytes through a real StreamReader); MQTT path preceded by another message on the same topic.'
    ' Round 9: BOM/zero-width/NUL prefixes and canonically decomposable characters on every path.'
    ' Round 10: every odd spelling of a field is enumerated with every command (not sampled).'
    ' Round 11: one ill-formed line of every class arriving complete on a byte stream must be rejected as InvalidMessageError.'
)
ASSUMPTIONS = [
    "spelling classes: canonical -?(0|[1-9][0-9]*); anything else int() parses is a grey zone (verdict not demanded)",
    "trailing whitespace is whatever str.rstrip removes, as in 'up to trailing whitespace'",
]

DELETABLE = ("warmup",)
NODE_REPS = ("0", "1", "255", "256", "-1", "", "a", " 2", "{}", "%s")
CHILD_REPS = ("0", "1", "254", "255", "256", "-1", "", "a")
CMD_REPS = ("0", "1", "2", "3", "4", "5", "-1", "", "a")
ACK_REPS = ("0", "1", "2", "-1", "", "a")
TYPE_REPS = ("0", "3", "4", "9", "33", "-1", "", "a")
ODD = (
    "256", "-1", "-0", "5", "2", "", "a", "1a", "1.0", "0x1", "1e1", "--1", "true", " 1", "1 ", "01", "+1", "1_0",
    "١", "99999999999999999999", "-99999999999999999999", "255", "254", "0", "\t3", "None", "1;1",
    "\ufeff1", "1\ufeff", "\ufeff", "\u200b1", "1\u00a0", "\x001", "e\u0301", "\u037e",
    "{}", "{0}", "{input}", "{", "}", "{input.x}", "%s", "%(input)s", "%d", "%", "${x}", "\\x41", "{\"temp\":21}",
    "0255", "+255", "2_55", " 255", "00", "+0", "0254", "+3", "03", "+4", "004", "²", "¹", "①", "1²", "٣", "٢٥٥", "9" * 4400, "-" + "9" * 4400, "１",
)
ENDINGS = ("\n", "", "\r\n", " ", "\n\n", "\t\n")


def budgets(tier: str) -> dict:
    if tier == "quick":
        return {"examples": 6000, "shards": 4, "enum_shards": 4}
    return {"examples": 300000, "shards": 16, "enum_shards": 16}


@st.composite
def _grammar_line(draw) -> str:
    msg = draw(gen.wellformed_message())
    fields = [str(x) for x in msg[:5]] + [msg[5]]
    for _ in range(draw(st.sampled_from((0, 1, 1, 1, 2)))):
        pos = draw(st.integers(0, 4))
        fields[pos] = draw(st.sampled_from(ODD))
    shape = draw(st.sampled_from(("six", "six", "six", "cut", "cut", "extend")))
    if shape == "cut":
        fields = fields[: draw(st.integers(0, 5))]
    elif shape == "extend":
        fields = fields + [draw(st.one_of(gen.short_payloads, st.sampled_from(("a\nb", "\n\nx", "first\nsecond\n\nthird", "\r\ninner"))))]
    return ";".join(fields) + draw(st.sampled_from(ENDINGS))


@st.composite
def _edited_line(draw) -> str:
    line = gen.line_of(draw(gen.wellformed_message()))
    pos = draw(st.integers(0, max(len(line) - 1, 0)))
    edit = draw(st.sampled_from(("delete", "insert", "replace", "dup-delim")))
    char = draw(st.sampled_from("0123456789;-+ .a"))
    if edit == "delete":
        return line[:pos] + line[pos + 1 :]
    if edit == "insert":
        return line[:pos] + char + line[pos:]
    if edit == "replace":
        return line[:pos] + char + line[pos + 1 :]
    idx = line.find(";", pos)
    if idx < 0:
        idx = line.find(";")
    return line[: idx + 1] + ";" + line[idx + 1 :]


def strategy(tier: str):
    lines = st.one_of(
        _grammar_line(),
        _grammar_line(),
        _edited_line(),
        st.text(st.sampled_from("0123456789;;;-+ .a\n"), max_size=16),
    )
    warm = st.lists(st.one_of(gen.wellformed_message().map(gen.line_of), _grammar_line()), max_size=3)
    return st.fixed_dictionaries(
        {
            "version": gen.versions,
            "line": lines,
            "warmup": st.one_of(st.just([]), warm),
            "debug_log": st.sampled_from((False, False, True)),  # `aiomysensors --debug` (the CLI always logs at DEBUG)
            "ctx": st.sampled_from(("same", "same", "same", "copied", "thread")),
            "mqtt": st.sampled_from((False, False, True)),  # the same line spelled as MQTT topic levels + payload
            "mqtt_prefix": st.sampled_from(MQTT_PREFIXES),
            "mqtt_repeat": st.booleans(),
            "stream": st.sampled_from((False, False, True)),  # the same line as bytes on a serial/TCP stream
            "presend": st.sampled_from((False, False, False, True)),
            "known": st.sampled_from((False, False, True)),
        }
    )


def enumerate_cases(tier: str):
    for version in VERSIONS:
        for warm in ("1;1;1;0;2;1\n", "1;1;2;0;2;\n", "1;1;0;0;3;relay\n", "1;255;3;0;0;55\n", "1;255;0;0;17;2.0\n", "1;255;4;0;0;ff\n", "junk\n",
                     "1;5;3;0;3;\n", "1;5;3;0;4;7\n", "1;5;3;1;3;\n", "1;5;1;0;2;1\n", "1;255;3;0;3;\n"):
            for line in ("1;5;3;0;3;\n", "255;0;3;0;4;7\n", "1;255;3;0;3;\n", "1;5;3;0;5;\n", "1;255;1;0;2;1\n", "1;5;4;0;3;ff\n", "7;5;1;0;2;1\n",
                         "1;5;3;0;0;87\n", "1;5;3;1;9;log\n", "1;5;3;0;2;2.2\n", "1;5;4;0;0;ff\n", "1;255;2;0;2;\n", "1;5;3;1;4;9\n"):
                yield {"version": version, "line": line, "warmup": [warm, warm]}
    for version in VERSIONS:
        for size in (65530, 65537, 70000, 300000):
            yield {"version": version, "line": "12;3;1;0;47;" + "p" * size + "\n"}
            yield {"version": version, "line": "12;255;3;0;9;" + "a;" * (size // 2) + "\n"}
            yield {"version": version, "line": "12;3;1;0;" + "p" * size + "\n"}
        for inner in ("first\nsecond", "\nx", "a\n\nb", "x\r\ny", "1;2\n3;4", "\x0b", "\x85line", "\u2028sep"):
            for head in ("0;255;3;0;9;", "12;3;1;1;47;", "7;255;0;0;17;"):
                yield {"version": version, "line": head + inner + "\n"}
                yield {"version": version, "line": head + inner}
        # a byte-order mark / zero-width / NUL in front of an otherwise well-formed line, on every path
        for lead in ("\ufeff", "\u200b", "\x00", " ", "\ufeff\ufeff"):
            for rest in ("1;255;3;0;9;hello", "12;3;1;1;47;x", "255;255;3;0;3;"):
                yield {"version": version, "line": lead + rest + "\n", "stream": True}
                yield {"version": version, "line": lead + rest + "\n", "mqtt": True}
        # characters with canonical decompositions (a decoder that normalises changes the payload - or invents separators: U+037E -> ';')
        for text in ("cafe\u0301", "A\u030a", "\u2126", "\u212b", "\u037e", "a\u037eb", "\ufb01", "\u00bd", "\uff11"):
            yield {"version": version, "line": "0;255;3;0;9;" + text + "\n", "stream": True}
            yield {"version": version, "line": "0\u037e255\u037e3\u037e0\u037e9\u037e" + text + "\n"}
        # characters str.splitlines splits on, inside a payload, on every path a line can take (direct, byte stream, MQTT twice on one topic)
        for inner in ("a\x0bb", "a\x0cb", "a\x1cb", "a\x1db", "a\x1eb", "a\x85b", "a\u2028b", "a\u2029b", "a\rb", "\x1c", "\x0b;x", "plain", "a;b"):
            for head in ("0;255;3;0;9;", "12;3;1;1;47;"):
                yield {"version": version, "line": head + inner + "\n", "stream": True}
                yield {"version": version, "line": head + inner + "\n", "mqtt": True, "mqtt_repeat": True}
                yield {"version": version, "line": head + inner + "\n", "mqtt": True, "mqtt_repeat": True, "mqtt_prefix": "mygateway1-out"}
    # well-formed lines from a node the gateway knows, with a value of that type stored (requests are answered, sets recorded, ...)
    for version in ("1.4", "2.0", "2.2"):
        for text in ("1;0;2;1;0;now;please", "1;0;2;0;0;", "1;0;1;0;0;21.5", "1;0;1;1;0;a;b", "1;255;3;0;0;55", "1;255;3;0;6;M", "1;255;3;0;1;", "1;255;0;0;17;2.1", "1;0;0;0;6;desc;x", "1;255;4;0;0;ff",
                     "1;255;3;1;22;7", "1;255;3;0;11;sketch;name", "1;0;2;1;2;x"):
            yield {"version": version, "line": text + "\n", "known": True}
    # well-formed lines that the controller itself sent just before (the node echoes a command that carried the ack flag)
    for version in ("1.4", "2.0", "2.2"):
        for text in ("4;1;1;1;0;9", "4;1;1;0;0;9", "4;1;2;1;0;", "4;255;3;1;18;", "4;255;3;0;13;", "4;255;3;1;6;M", "0;255;3;1;2;", "4;255;4;1;0;00", "4;1;1;1;2;on;off"):
            yield {"version": version, "line": text + "\n", "presend": True}
    # one ill-formed line of every class arriving complete on a byte stream: rejected as an invalid message, like anywhere else
    for version in ("1.4", "2.2"):
        for text in ("", "\r", " ", "\t", "  \r", ";", ";;;;;", "1", "1;2", "1;2;3;0;5", "1;2;1;0;", "256;1;1;0;0;x", "1;256;1;0;0;x", "1;1;5;0;0;x", "1;1;1;2;0;x", "a;1;1;0;0;x", "1;1;1;0;x;y",
                     "1;255;1;0;0;x", "1;1;3;0;0;x", "-1;1;1;0;0;x", "1.0;1;1;0;0;x", "garbage", "\x00", "0;255;3;0;9", "1;1;1;0", "\ufeff"):
            yield {"version": version, "line": text + "\n", "stream": True}
    # odd-but-int()-parsable spellings of the boundary values in every header field, against every command (cross-field rules use the VALUE)
    for version in ("1.4", "2.2"):
        for spelled in ("0255", "+255", " 255", "255 ", "2_55", "٢٥٥", "00", "+0", "-0", "0254", "+3", "03", "004", "+4", "１", "0x3"):
            for pos in range(5):
                for base in (["1", "255", "1", "0", "2"], ["1", "255", "2", "0", "2"], ["1", "255", "3", "0", "9"], ["1", "5", "3", "0", "3"], ["1", "5", "4", "0", "1"], ["1", "255", "0", "0", "17"], ["255", "0", "1", "1", "0"]):
                    fields = list(base)
                    fields[pos] = spelled
                    yield {"version": version, "line": ";".join(fields) + ";p\n"}
    # format-string metacharacters in one field while another field is out of range / ill-formed (error messages built from the input)
    for version in ("1.4", "2.2"):
        for meta in ("{}", "{0}", "{input}", "{input.x}", "}", "{", "%s", "%(x)s", "%d", "{\"temp\":21}"):
            for pos in range(5):
                for bad_pos, bad in ((0, "256"), (1, "300"), (1, "999"), (2, "9"), (3, "7"), (4, "x"), (1, "-1")):
                    if bad_pos == pos:
                        continue
                    fields = ["1", "1", "1", "0", "2"]
                    fields[pos] = meta
                    fields[bad_pos] = bad
                    yield {"version": version, "line": ";".join(fields) + ";21\n"}
    # the line arrives as MQTT topic levels + payload: an empty or odd level may not shift the payload into the header
    for version in ("1.4", "2.2"):
        for head in (["0", "255", "3", "0", "9"], ["12", "3", "1", "1", "47"], ["7", "255", "0", "0", "17"], ["3", "5", "3", "0", "3"], ["4", "255", "4", "0", "1"]):
            for pos in range(5):
                for text in ("", " ", "x", "-1", "256"):
                    for payload in ("9;hello", "3;", "0;255;3;0;9;z", "x", ""):
                        fields = list(head)
                        fields[pos] = text
                        yield {"version": version, "line": ";".join(fields) + ";" + payload + "\n", "mqtt": True}
            for payload in ("9;hello", "a/b", ""):
                yield {"version": version, "line": ";".join(head) + ";" + payload + "\n", "mqtt": True}
        # every kind of topic prefix x node ids whose digits occur in the prefix
        for prefix in MQTT_PREFIXES:
            for node in (0, 1, 2, 3, 5, 10, 11, 12, 21, 55, 110, 125, 201, 250, 255):
                for rest in ("255;3;0;9;hello", "1;1;1;47;1;2;3", "255;0;0;17;2.0"):
                    yield {"version": version, "line": f"{node};{rest}\n", "mqtt": True, "mqtt_prefix": prefix}
    # two malformed header fields at once: template-looking text in one, an out-of-domain value in another (every ordered pair of positions)
    for version in VERSIONS if tier == "thorough" else ("1.4", "2.0", "2.2"):
        for line in gen.template_pair_lines():
            yield {"version": version, "line": line}
    versions = VERSIONS if tier == "thorough" else ("1.4", "2.2")
    reps = (NODE_REPS, CHILD_REPS, CMD_REPS, ACK_REPS, TYPE_REPS)
    for version in versions:
        # short lines: every prefix shape with 0-5 fields
        yield {"version": version, "line": ""}
        yield {"version": version, "line": "\n"}
        yield {"version": version, "line": "", "debug_log": True}
        yield {"version": version, "line": "\n", "debug_log": True}
        for count in range(1, 6):
            pools = [r[:6] if tier == "quick" else r for r in reps[:count]]
            for combo in itertools.product(*pools):
                yield {"version": version, "line": ";".join(combo) + "\n"}
                if count <= 3:
                    yield {"version": version, "line": ";".join(combo) + "\n", "debug_log": True}
        if tier == "thorough":
            for combo in itertools.product(*reps):
                for tail in ("", "p", "p;q"):
                    yield {"version": version, "line": ";".join(combo) + ";" + tail + "\n"}
        else:
            small = (NODE_REPS[:4], CHILD_REPS[:5], CMD_REPS[:6], ACK_REPS[:3], TYPE_REPS[:5])
            for combo in itertools.product(*small):
                yield {"version": version, "line": ";".join(combo) + ";p;q\n"}


MQTT_PREFIXES = ("gw/out", "mygateway1-out", "0", "12/5", "255/0/1", "1", "3/3/3/3/3/3", "mysensors/2")  # incl. the README default; digits that also occur in ids


def _via_stream(version: str, line: str, ctx: str | None):
    """The line as bytes on a serial/TCP stream (real StreamReader over an in-memory transport), then listen. None = not expressible."""
    from vf.props import c03

    body = line[:-1] if line.endswith("\n") else line
    if "\n" in body:
        return None
    try:
        raw = body.encode("utf-8") + b"\n0;255;3;0;9;after\n"
    except UnicodeEncodeError:
        return None

    async def main():
        transport = c03.MemoryStreamTransport(raw, 2**20)
        gateway, _ = env.make_gateway(version, transport=transport, ctx=ctx)
        await transport.connect()
        agen = gateway.listen()
        try:
            return "ok", await agen.__anext__()
        except Exception as err:  # noqa: BLE001
            from aiomysensors.exceptions import AIOMySensorsError

            return ("liberr" if isinstance(err, AIOMySensorsError) else "leak"), err
        finally:
            await agen.aclose()
            try:
                await transport.disconnect()
            except BaseException:  # noqa: BLE001
                pass

    return env.run(main())


def _via_mqtt(version: str, line: str, ctx: str | None, prefix: str = "gw/out", repeat: bool = False):
    """Deliver the line as topic '<in>/f0/f1/f2/f3/f4' + payload through a real MQTTClient and listen. None = not expressible."""
    import asyncio

    from aiomysensors.transport.mqtt import MQTTClient

    from vf.props import c18
    from vf.vloop import run_virtual

    body = line[:-1] if line.endswith("\n") else line
    parts = body.split(";", 5)
    if len(parts) != 6 or any(ch in level for level in parts[:5] for ch in "/+#\x00") or "\n" in body:
        return None
    try:
        raw = parts[5].encode("utf-8")
    except UnicodeEncodeError:
        return None

    async def main():
        broker = c18.FakeBroker()
        c18._patch(broker)
        transport = MQTTClient("broker.invalid", 1883, prefix, "gw/in")
        gateway, _ = env.make_gateway(version, transport=transport, ctx=ctx)
        await transport.connect()
        try:
            topic = prefix + "/" + "/".join(parts[:5])
            if repeat and broker.deliver(topic, b"first;message", 0):
                # an earlier message on the very same topic, read and handled first (the transport must not remember it)
                first = gateway.listen()
                try:
                    await asyncio.wait_for(first.__anext__(), 5.0)
                except Exception:  # noqa: BLE001
                    pass
                finally:
                    await first.aclose()
            if not broker.deliver(topic, raw, 0):
                return None  # no subscription matches (e.g. the command level is not 0-4): the broker sends nothing
            agen = gateway.listen()
            try:
                return "ok", await asyncio.wait_for(agen.__anext__(), 5.0)
            except asyncio.TimeoutError:
                return "dropped", None
            except Exception as err:  # noqa: BLE001
                from aiomysensors.exceptions import AIOMySensorsError

                return ("liberr" if isinstance(err, AIOMySensorsError) else "leak"), err
            finally:
                await agen.aclose()
        finally:
            try:
                await transport.disconnect()
            except BaseException:  # noqa: BLE001 - disconnect behaviour is C18's subject
                pass

    return run_virtual(main)[0]


def run_case(case: dict) -> Outcome:
    with env.debug_logging(bool(case.get("debug_log"))):
        out = _run_case(case)
    if case.get("debug_log"):
        out.classes = tuple(out.classes or ()) + ("debug-log",)
    return out


def _run_case(case: dict) -> Outcome:
    version, line = case["version"], case["line"]
    ctx = case.get("ctx")
    ref = ref_verdict(line)
    verdict, rule = ref["verdict"], ref["rule"]
    nfields = len(line.rstrip().split(";"))
    nontrivial = nfields != 6 or rule != "ok" or (
        ref["values"] is not None and (ref["values"][0] in (0, 255) or ref["values"][1] in (0, 254, 255))
    )
    classes = (f"fields={min(nfields, 8)}", f"verdict={verdict}", f"rule={rule.split('@')[0] if 'fields=' not in rule else 'fieldcount'}")

    def build_schema() -> MessageSchema:
        made = MessageSchema()
        made.set_protocol(get_protocol(version))
        return made

    schema = env.in_ctx(ctx, build_schema)
    if case.get("mqtt"):
        got = _via_mqtt(version, line, ctx, case.get("mqtt_prefix") or "gw/out", bool(case.get("mqtt_repeat")))
        if got is not None:
            classes += ("via-mqtt",)
            status, value = got
            if status == "leak":
                return fail(f"mqtt-listen-leak:{env.exc_sig(value)}", f"line {line!r} as MQTT topic+payload under {version}: {value!r}", classes=classes)
            if verdict == "reject" and status == "ok":
                return fail(
                    f"mqtt-accepted-illformed:{rule.split('@')[0]}",
                    f"topic levels + payload spelling {line!r} under {version} were accepted as {env.msg_fields(value)} (rule {rule})",
                    classes=classes,
                )
            if verdict == "accept" and status == "ok" and None not in ref["values"]:
                fields = env.msg_fields(value)
                if fields[:5] != ref["values"] or not payload_matches(ref["rest"], fields[5]):
                    return fail("mqtt-misdecoded", f"topic levels + payload spelling {line!r} decoded as {fields}", classes=classes)
            if verdict == "accept" and status == "liberr" and isinstance(value, InvalidMessageError) and None not in ref["values"]:
                v_node, v_child, v_cmd = ref["values"][0], ref["values"][1], ref["values"][2]
                if not (v_cmd == 3 or (v_cmd == 0 and v_child == 255 and v_node == 0)):  # (payload-converting handlers may reject)
                    return fail("mqtt-rejects-wellformed", f"topic levels + payload spelling {line!r} (prefix {case.get('mqtt_prefix')!r}) rejected: {value!r}", classes=classes)
            if verdict == "accept" and status == "dropped":
                return fail("mqtt-dropped-wellformed", f"topic levels + payload spelling {line!r}: nothing was received", classes=classes)
    if case.get("presend") and verdict == "accept" and None not in ref["values"]:
        # the controller itself sent this very message a moment ago (with or without the ack flag); now the line arrives
        async def after_send():
            gateway, transport = env.make_gateway(version, ctx=ctx)
            fields = ref["values"] + [ref["rest"].rstrip()]
            env.install_registry(gateway.nodes, {str(fields[0]): {"children": {str(fields[1]): {"child_type": 0}}}})
            await env.send(gateway, env.mk_message(fields), False)
            first = await env.rx(gateway, line)
            return first, await env.rx(gateway, line)

        for status, value in env.run(after_send()):
            classes += ("after-own-send",)
            if status == "drained":
                return fail("swallowed-after-own-send", f"{line!r} under {version}, received after the controller sent the same message: neither accepted nor rejected", classes=classes)
            if status == "leak":
                return fail(f"listen-leak:{env.exc_sig(value)}", f"{line!r} received after the controller sent the same message: {value!r}", classes=classes)
    if case.get("known") and verdict == "accept" and None not in ref["values"]:
        # the gateway knows the sender: node and child are in its registry and a value of that type is stored (what the line
        # decodes to does not depend on what the controller knows)
        async def with_state():
            gateway, _transport = env.make_gateway(version, ctx=ctx)
            vals = ref["values"]
            env.install_registry(gateway.nodes, {str(vals[0]): {"protocol_version": "2.0", "children": {str(vals[1]): {"child_type": 6, "values": {str(vals[4]): "20.5"}}}}})
            return await env.rx(gateway, line)

        status, value = env.run(with_state())
        classes += ("known-sender",)
        if status == "leak":
            return fail(f"listen-leak:{env.exc_sig(value)}", f"{line!r} from a known node under {version}: {value!r}", classes=classes)
        if status == "ok":
            fields = env.msg_fields(value)
            if fields[:5] != ref["values"] or not payload_matches(ref["rest"], fields[5]):
                return fail("misdecoded:known-sender", f"{line!r} from a known node (value stored) was yielded as {fields}", classes=classes)
    if case.get("stream"):
        got = _via_stream(version, line, ctx)
        if got is not None:
            classes += ("via-stream",)
            status, value = got
            if status == "leak":
                return fail(f"stream-listen-leak:{env.exc_sig(value)}", f"line {line!r} on a byte stream under {version}: {value!r}", classes=classes)
            if verdict == "reject" and status == "liberr" and not isinstance(value, InvalidMessageError):
                return fail(f"stream-rejected-otherwise:{type(value).__name__}", f"{line!r} arriving complete on a byte stream under {version} is ill-formed ({rule}); it was turned away with {value!r} instead of InvalidMessageError", classes=classes)
            if verdict == "reject" and status == "ok":
                return fail(f"stream-accepted-illformed:{rule.split('@')[0]}", f"{line!r} arriving on a byte stream under {version} was accepted as {env.msg_fields(value)}", classes=classes)
            if verdict == "accept" and status == "ok" and None not in ref["values"]:
                fields = env.msg_fields(value)
                if fields[:5] != ref["values"] or not payload_matches(ref["rest"], fields[5]):
                    return fail("stream-misdecoded", f"{line!r} arriving on a byte stream decoded as {fields}", classes=classes)
    for warm in case.get("warmup", ()):
        # the codec must be stateless: what a long-lived schema decoded before may not matter
        try:
            schema.load(warm)
        except Exception:  # noqa: BLE001
            pass
    try:
        loaded = schema.load(line)
        load_status = "ok"
    except ValidationError:
        loaded, load_status = None, "rejected"
    except Exception as err:  # noqa: BLE001
        return fail(
            f"load-leak:{env.exc_sig(err)}",
            f"MessageSchema.load({line!r}) under {version} raised {err!r}",
            classes=classes,
        )

    async def via_gateway():
        gateway, _transport = env.make_gateway(version, ctx=ctx)
        for warm in case.get("warmup", ()):
            await env.rx(gateway, warm)
        return await env.rx(gateway, line)

    gw_status, gw_val = env.run(via_gateway())
    if gw_status == "leak" and load_status == "rejected":
        # (a leak on a line the codec accepts comes from a handler: that is C03's subject)
        return fail(
            f"listen-leak:{env.exc_sig(gw_val)}",
            f"Gateway.listen on {line!r} under {version} raised {gw_val!r}",
            classes=classes,
        )
    gw_invalid = gw_status == "liberr" and isinstance(gw_val, InvalidMessageError)
    if gw_status == "leak":
        gw_status = "handler-leak"

    if verdict == "reject":
        if load_status == "ok":
            return fail(
                f"accepted-illformed:{rule.split('@')[0]}",
                f"load({line!r}) under {version} accepted: {env.msg_fields(loaded)} (rule {rule})",
                classes=classes,
            )
        if not gw_invalid:
            return fail(
                f"listen-not-invalid:{rule.split('@')[0]}",
                f"listen on ill-formed {line!r} gave {gw_status} {gw_val!r}",
                classes=classes,
            )
        return Outcome(ok=True, nontrivial=nontrivial, classes=classes)

    if load_status == "rejected":
        if verdict == "accept":
            cmd = ref["values"][2]
            return fail(
                f"rejected-wellformed:cmd={cmd}",
                f"load({line!r}) under {version} rejected a well-formed line",
                classes=classes,
            )
        if not gw_invalid:
            return fail("listen-load-disagree", f"load rejects {line!r} but listen gave {gw_status} {gw_val!r}", classes=classes)
        return Outcome(ok=True, nontrivial=nontrivial, classes=classes)

    # accepted: literal decode
    got = env.msg_fields(loaded)
    # ... also the second time the same line arrives, whatever the caller did with the first result
    try:
        loaded.payload, loaded.command, loaded.message_type = "edited-by-caller", 1, 99
        again = env.msg_fields(schema.load(line))
    except Exception as err:  # noqa: BLE001
        return fail(f"second-load-raises:{type(err).__name__}", f"second load({line!r}) raised {err!r}", classes=classes)
    if again != got:
        return fail("second-decode-aliases-first", f"second load({line!r}) = {again} after the caller edited the first result {got}", classes=classes)
    for name, want, have in zip(("node", "child", "command", "ack", "type"), ref["values"], got[:5]):
        if want is None:
            continue
        if have != want or type(have) is not int:
            return fail(f"misdecoded:{name}", f"load({line!r}) decoded {name}={have!r}, spelled {want}", classes=classes)
    if not payload_matches(ref["rest"], got[5]):
        return fail("misdecoded:payload", f"load({line!r}) decoded payload {got[5]!r}, spelled {ref['rest']!r}", classes=classes)
    if verdict == "accept":
        node, child, cmd = ref["values"][0], ref["values"][1], ref["values"][2]
        converting_handler = cmd == 3 or (cmd == 0 and child == 255 and node == 0)  # payload checked by a handler
        if gw_invalid and not converting_handler:
            return fail("listen-rejects-wellformed", f"listen on {line!r}: {gw_val!r}", classes=classes)
        if gw_status == "ok" and None not in ref["values"] and env.msg_fields(gw_val)[:5] != ref["values"]:
            return fail("listen-misdecoded", f"listen on {line!r} yielded {env.msg_fields(gw_val)}", classes=classes)
    elif ref["rule"] != "ok":
        # grey spelling but the int values violate a rule: being accepted is still wrong
        return fail(
            f"accepted-illformed:{rule.split('@')[0]}",
            f"load({line!r}) under {version} accepted: {got} (rule {rule})",
            classes=classes,
        )
    return Outcome(ok=True, nontrivial=nontrivial, classes=classes)
