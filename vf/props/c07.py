"""C07 - sleep buffer: commands for a sleeping node wait for its wake, then go once (DESIGN 4.7)."""

from __future__ import annotations

from hypothesis import strategies as st

from vf import drive, env, gen
from vf.runner import Outcome

ID = "C07"
LEVEL = "exploration"
DESIGN_REF = "4.7"
RULE = (
    "cases = version (2.0/2.1/2.2, or 1.4/1.5 with sleeping flags restored as from persistence and possibly a later version report) x "
    "registry of nodes 1-3 with children 0-1 and generated sleeping flags x history (<=30) interleaving send(set) with buffering "
    "default/True/False, wake messages (heartbeat response, pre-sleep notification) and non-wake traffic (sets, battery, heartbeat request, "
    "log, 2.2 heartbeat responses, node re-presentations). Oracle (reference controller): a send is written immediately and verbatim unless "
    "buffering is allowed and the destination is known and sleeping; at that node's next wake the multiset of writes equals the latest parked "
    "message per (child,type) of that node only; nothing is written twice. Parked state is observed through writes only. Non-trivial = a key "
    "overwritten before the wake, a wake while another node has parked commands, or re-parking after a flush; distinct = distinct case JSON."
    ' Round 6: non-set application sends (req for the same child/type, internal commands), read errors, clock ticks.'
    ' Round 7: all value types 0-56/99/255 enumerated; `reuse` sends (one Message object per key, edited before each send).'
    ' Round 11: environment sweep (see C03).'
    ' Round 12: hidden-switch sweep; more tour events (value changed and changed back, a sleeper asked to present itself, process-clock jumps); pass under `python -O`.'
    ' Round 13: 200 sleeping nodes with a parked command each.'
)
ASSUMPTIONS = [
    "only set commands are sent (other commands: C12); value requests from nodes are part of the traffic (their reply is a set line too)",
]
DELETABLE = ("ops",)
ASPECTS = frozenset({"writes", "sleepflag", "sendwrites", "flush"})  # which nodes are known to be sleeping is part of this property's vocabulary


def budgets(tier: str) -> dict:
    if tier == "quick":
        return {"examples": 2400, "shards": 4}
    return {"examples": 100000, "shards": 16}


def _ops(version: str):
    # ids chosen so that naive string keys collide: (1,12,3), (11,2,3) and (1,1,23) all concatenate to "1123"
    node = st.sampled_from((1, 1, 11, 11, 2))
    child = st.sampled_from((1, 2, 12))
    vtype = st.sampled_from((3, 23))
    value = st.sampled_from(("0", "1", "2", "3", "x;y", ""))
    send = st.builds(
        # (the application may keep one Message object per command and change its payload before each send: "reuse")
        lambda n, c, t, v, a, b, r: ["send", [n, c, 1, a, t, v], b] + (["reuse"] if r else []),
        node, child, vtype, value, st.sampled_from((0, 0, 1)), st.sampled_from((None, None, None, None, True, False)), st.sampled_from((False, False, True)),
    )
    # ... and what else an application sends to the same nodes: value requests for the same child/type, internal commands
    send_other = st.one_of(
        st.builds(lambda n, c, t, b: ["send", [n, c, 2, 0, t, ""], b], node, child, vtype, st.sampled_from((None, None, True, False))),
        st.builds(lambda n, t, b: ["send", [n, 255, 3, 0, t, ""], b], node, st.sampled_from((13, 18)), st.sampled_from((None, None, False))),
    )
    hb = st.builds(lambda n, p: ["rx", f"{n};255;3;0;22;{p}\n"], node, st.sampled_from(("0", "7", "123")))
    pre = st.builds(lambda n: ["rx", f"{n};255;3;0;32;500\n"], node)
    wake = st.one_of(pre, pre, pre, hb) if version == "2.2" else st.one_of(hb, hb, hb, pre)
    other = st.one_of(
        st.builds(lambda n, c, t, v: ["rx", f"{n};{c};1;0;{t};{v}\n"], node, child, vtype, value),
        st.builds(lambda n: ["rx", f"{n};255;3;0;0;77\n"], node),
        st.builds(lambda n, c, t: ["rx", f"{n};{c};2;0;{t};\n"], node, child, vtype),
        st.builds(lambda n, c, t: ["rx", f"{n};{c};2;0;{t};\n"], node, child, vtype),
        st.builds(lambda n: ["rx", f"{n};255;3;0;18;\n"], node),
        st.builds(lambda n: ["rx", f"{n};255;3;0;33;\n"], node),
        st.builds(lambda n, t: ["rx", f"{n};255;0;0;{t};2.0\n"], node, st.sampled_from((17, 18))),
        st.builds(lambda n, c: ["rx", f"{n};{c};0;0;3;relay\n"], node, child),
        st.sampled_from((["rx", "0;255;3;0;9;log\n"], ["rx", "0;255;3;0;2;2.2.0\n"], ["rx", "0;255;3;0;2;2.0.1\n"], ["rx", "junk\n"], ["session"], ["session"], ["save"], ["reload"], ["read_error", "read"], ["read_error", "failed"], ["tick", 86400],
                         ["rx", "0;255;3;0;14;Gateway startup complete.\n"])),
    )
    incoming = gen.with_ack(st.builds(lambda n, c, t, v: f"{n};{c};1;0;{t};{v}\n", node, child, vtype, value)).map(lambda l: ["rx", l])
    free = st.lists(gen.weighted((8, send), (4, wake), (4, incoming), (2, other), (1, send_other)), min_size=8, max_size=30)

    @st.composite
    def episodes(draw):
        ops: list = []
        for _ in range(draw(st.integers(1, 5))):
            target = draw(st.sampled_from((1, 11)))
            for _ in range(draw(st.integers(1, 4))):
                op = draw(send)
                if draw(st.integers(0, 3)):
                    op = ["send", [target] + op[1][1:], op[2]]
                ops.append(op)
                if not draw(st.integers(0, 4)):
                    ops.append(draw(gen.weighted((1, other), (1, wake), (2, incoming))))
            wake_op = draw(wake)
            if draw(st.integers(0, 4)):
                wake_op = ["rx", f"{target};" + wake_op[1].split(";", 1)[1]]
            ops.append(wake_op)
            if not draw(st.integers(0, 2)):
                ops.append(draw(wake))
        return ops[:40]

    return st.one_of(free, episodes(), episodes())


@st.composite
def _registry(draw) -> dict:
    reg: dict = {}
    for node in draw(st.sampled_from(((1, 11), (1, 11, 2), (1,), (11, 2), (1, 11)))):
        children = {
            str(c): {"child_id": c, "child_type": 3, "description": "", "values": draw(st.sampled_from(({}, {}, {"3": "1", "23": "0"}, {"3": "0"})))}
            for c in draw(st.sampled_from(((1, 2, 12), (1, 12), (1,), ())))
        }
        reg[str(node)] = {
            "node_id": node, "node_type": draw(st.sampled_from((17, 18, 18, 0))), "protocol_version": draw(st.sampled_from(("2.0", "2.2.0", "1.4", ""))), "sketch_name": "", "sketch_version": "",
            "battery_level": 0, "heartbeat": 0, "sleeping": draw(st.sampled_from((True, True, True, False))), "children": children,
        }
    return reg


def strategy(tier: str):
    versions = st.sampled_from(("2.0", "2.1", "2.2", "2.0", "2.1", "2.2", "2.2", "1.4", "1.5"))
    return versions.flatmap(
        lambda v: st.fixed_dictionaries({"version": st.just(v), "registry": _registry(), "ops": _ops(v), "listen_mode": st.sampled_from(("fresh", "persistent")), "debug_log": st.sampled_from((False, False, True))})
    )


INTERVENING = (
    "11;1;1;0;3;1\n", "11;1;1;0;3;0\n", "11;1;1;1;3;1\n", "11;1;1;0;23;1\n", "11;2;1;0;3;1\n", "1;1;1;0;3;1\n",  # the node (or another) reports a value
    "11;1;2;0;3;\n", "11;1;2;1;3;\n", "11;2;2;0;3;\n",  # the node asks for a value
    "11;1;0;0;3;relay\n", "11;255;0;0;17;2.0\n", "11;255;0;0;18;2.2.0\n",  # (re-)presentations
    "11;255;3;0;0;55\n", "11;255;3;0;11;sketch\n", "11;255;3;0;18;\n", "11;255;3;0;33;\n", "11;255;3;0;6;0\n", "11;255;3;0;1;\n",
    "0;255;3;0;14;Gateway startup complete.\n", "0;255;3;0;18;\n", "0;255;3;0;6;0\n", "11;255;3;0;21;\n", "11;255;3;0;13;\n", "11;255;3;0;24;1\n", "11;255;3;0;12;1.0\n",
    "11;255;4;0;0;00\n", "255;255;3;0;3;\n", "11;7;3;0;3;\n",
    "1;255;3;0;22;7\n", "1;255;3;0;32;500\n", "0;255;3;0;9;log\n", "0;255;3;0;2;2.2.0\n", "0;255;3;0;2;2.0.0\n", "junk\n", "11;1;1;0;3;1\n11;1;1;0;3;1\n",
)


def opt_cases(tier: str):
    """Cases also executed by an interpreter started with -O (see vf/optpass.py)."""
    return drive.opt_sweep_cases(tier)


def enumerate_cases(tier: str):
    # one event of every kind under every environment dimension (transport kind, logging, warnings, a bystander gateway, registry file, ...)
    yield from drive.all_sweep_cases()
    # a large network: 200 sleeping nodes, a command parked for each, every one wakes
    for version in ("2.0", "2.2"):
        wake_t = 32 if version == "2.2" else 22
        reg = {str(n): {"node_id": n, "node_type": 17, "protocol_version": "2.0", "sketch_name": "", "sketch_version": "", "battery_level": 0, "heartbeat": 0, "sleeping": True,
                        "children": {"1": {"child_id": 1, "child_type": 3, "description": "", "values": {}}}} for n in range(1, 201)}
        ops = [["send", [n, 1, 1, 0, 2, str(n % 2)], True] for n in range(1, 201)] + [["rx", f"{n};255;3;0;{wake_t};1\n"] for n in range(1, 201)]
        yield {"version": version, "metric": True, "registry": reg, "ops": ops}
    # one parked command, one intervening event of every kind, then the wake: the command is owed whatever happened in between
    registry = {
        "11": {"node_id": 11, "node_type": 17, "protocol_version": "2.0", "sketch_name": "", "sketch_version": "", "battery_level": 0, "heartbeat": 0, "sleeping": True,
               "children": {"1": {"child_id": 1, "child_type": 3, "description": "", "values": {"3": "1"}}, "2": {"child_id": 2, "child_type": 3, "description": "", "values": {}}}},
        "1": {"node_id": 1, "node_type": 17, "protocol_version": "2.0", "sketch_name": "", "sketch_version": "", "battery_level": 0, "heartbeat": 0, "sleeping": True, "children": {}},
    }
    for version in ("2.0", "2.2"):
        wake = "11;255;3;0;32;500\n" if version == "2.2" else "11;255;3;0;22;7\n"
        for value in ("1", "0"):
            for mode in ("fresh", "persistent"):
                for line in INTERVENING:
                    ops = [["send", [11, 1, 1, 0, 3, value], None], ["send", [1, 2, 1, 0, 3, value], None]]
                    ops += [["rx", l + "\n"] for l in line.rstrip("\n").split("\n")] + [["rx", wake], ["session"], ["rx", wake]]
                    yield {"version": version, "registry": registry, "ops": ops, "listen_mode": mode}
                for event in (["save"], ["reload"], ["session"], ["read_error", "read"], ["read_error", "failed"], ["tick", 86400], ["send", [11, 1, 2, 0, 3, ""], None], ["send", [11, 1, 2, 1, 3, ""], True], ["send", [11, 2, 2, 0, 3, ""], None],
                              ["send", [11, 255, 3, 0, 13, ""], None], ["send", [11, 255, 3, 0, 18, ""], None], ["send", [1, 2, 2, 0, 3, ""], None]):
                    ops = [["send", [11, 1, 1, 0, 3, value], None], ["send", [1, 2, 1, 0, 3, value], None], event, ["rx", wake], ["rx", wake]]
                    yield {"version": version, "registry": registry, "ops": ops, "listen_mode": mode}
    # every value type (the numbers overlap with internal type numbers, e.g. 19): parked, the node presents a child / reports / asks, then wakes
    for version in ("2.0", "2.2"):
        wake = "11;255;3;0;32;500\n" if version == "2.2" else "11;255;3;0;22;7\n"
        for vtype in list(range(0, 57)) + [99, 255]:
            ops = [["send", [11, 1, 1, 0, vtype, "1"], None], ["rx", "11;1;0;0;3;relay\n"], ["rx", f"11;1;1;0;{vtype};0\n"], ["rx", "11;255;3;0;0;55\n"], ["rx", wake], ["rx", wake]]
            yield {"version": version, "registry": registry, "ops": ops, "listen_mode": "persistent" if vtype % 2 else "fresh"}
    # one Message object re-used for successive commands (payload changed in between), parked and direct
    for version in ("1.5", "2.0", "2.2"):
        wake = "11;255;3;0;32;500\n" if version == "2.2" else "11;255;3;0;22;7\n"
        ops = [["send", [11, 1, 1, 0, 3, "1"], None, "reuse"], ["send", [11, 1, 1, 0, 3, "0"], None, "reuse"], ["rx", wake], ["send", [11, 1, 1, 0, 3, "55"], None, "reuse"], ["rx", wake],
               ["send", [1, 2, 1, 0, 3, "a"], False, "reuse"], ["send", [1, 2, 1, 1, 3, "b"], False, "reuse"], ["rx", wake]]
        yield {"version": version, "registry": registry, "ops": ops, "listen_mode": "fresh"}
    # the gateway's version (and with it the protocol module) changes between the send and the wake
    for first in (None, "1.5", "2.0", "2.1", "2.2"):
        for then in ("2.0.0", "2.1.1", "2.2.0"):
            if first is not None and then.startswith(first):
                continue
            wake = "11;255;3;0;32;500\n" if then.startswith("2.2") else "11;255;3;0;22;7\n"
            for form in ("0;255;3;0;2;{}\n", "0;255;0;0;18;{}\n"):
                for mode in ("fresh", "persistent"):
                    ops = [["send", [11, 1, 1, 0, 3, "1"], None], ["send", [11, 2, 1, 1, 3, "0"], None], ["rx", form.format(then)], ["rx", wake], ["rx", wake]]
                    yield {"version": first, "registry": registry, "ops": ops, "listen_mode": mode}
    # many parked commands for one node: all of them are owed at its next wake, however many there are
    for version in ("2.0", "2.2"):
        wake = "1;255;3;0;32;500\n" if version == "2.2" else "1;255;3;0;22;7\n"
        for count in (5, 17, 24, 40):
            registry = {"1": {"node_id": 1, "node_type": 17, "protocol_version": "2.0", "sketch_name": "", "sketch_version": "", "battery_level": 0, "heartbeat": 0,
                              "sleeping": True, "children": {}}}
            ops = [["send", [1, k // 4, 1, 0, k % 4, f"v{k}"], None] for k in range(count)] + [["rx", wake], ["rx", wake]]
            yield {"version": version, "registry": registry, "ops": ops, "listen_mode": "fresh"}


def run_case(case: dict) -> Outcome:
    if case.get("kind") == "envsweep":
        return drive.run_env_case(case, ASPECTS)
    bad, info = env.run(drive.run_history(case, ASPECTS))
    classes = tuple(sorted(info["classes"])) + (f"version={case['version']}",)
    if bad is not None:
        bad.classes = classes
        return bad
    cls = info["classes"]
    nontrivial = bool(cls.get("wake-with-parked")) and bool(
        cls.get("park-overwrite") or cls.get("wake-while-other-node-parked") or cls.get("re-park-after-flush")
    )
    return Outcome(ok=True, nontrivial=nontrivial, classes=classes)
