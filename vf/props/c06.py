"""C06 - writes are exactly the specified reactions, addressed to the asker, unbuffered (DESIGN 4.6)."""

from __future__ import annotations

import calendar
import os
import time

from hypothesis import strategies as st

from vf import drive, env, gen
from vf.runner import Outcome

ID = "C06"
LEVEL = "exploration"
DESIGN_REF = "4.6"
RULE = (
    "cases = version (unknown or one of five) x metric/imperial x fixed-offset time zone x generated epoch x generated registry (stored "
    "values present/absent, reboot flags, sleeping requesters, several nodes) x history (<=20) of received lines only: id requests (also odd "
    "askers), config, time, req, set, gateway ready, log, version replies, presentations, battery/sketch, unsupported types, unknown "
    "nodes/children, malformed lines, and application flips of the reboot flag. Oracle (reference controller): per step the multiset of "
    "writes other than presentation requests equals the specified reactions addressed to the asker plus exactly one version query iff the "
    "version is still unknown after a decoded non-log/non-gateway-ready message; all written during the step. Time reply = epoch + UTC "
    "offset of the zone (clock shim) or inside the real-clock window + offset. Non-trivial = a sleeping requester got a reaction, or "
    "version-unknown with a failing handler, or >= 2 nodes asked, or non-zero UTC offset with a time request; distinct = distinct case JSON."
    ' Round 5: value types outside the per-version tables (47, 57, 99, 255...) are stored and requested; a message the model accepts that owes a reaction but is refused without it is reported as `reaction-refused`.'
    ' Round 6: application sends (set, req) and save/reload/read-error events in histories; what a send writes and what a wake releases are left to C07.'
    ' Round 7: histories run on the virtual loop with idle periods (`sleep`): any write attempt while nothing is received is a violation; a decoded message received while the version is unknown owes the query whatever else happens to it.'
    ' Round 9: `session` events; `persistence_file=unwritable`; a refused id request that was owed an answer is reported.'
    ' Round 10: long stored values in the per-type sweep.'
    ' Round 11: environment sweep (see C03); zones with daylight saving rules asked in their summer and winter (DST_POINTS).'
    ' Round 12: hidden-switch sweep (every internal type, then the whole tour in one history); pass under `python -O`; eager task factory.'
    ' Round 14: sleeper sweep (every non-wake message from a sleeper with a command parked); commands released by a message that is no wake are judged here, not left to C07.'
)
ASSUMPTIONS = [
    "time zones are fixed-offset POSIX TZ strings applied with time.tzset(); the handler module's `time` attribute is shimmed when present",
    "presentation-request writes (type 19) are projected out: they are C10's subject",
]
DELETABLE = ("ops",)
ASPECTS = frozenset({"writes", "vquery"})

ZONES = {"UTC0": 0, "<+0530>-5:30": 19800, "<-08>8": -28800, "<+14>-14": 50400, "<-12>12": -43200, "<+0545>-5:45": 20700, "<+01>-1": 3600}


# zones with daylight saving rules: (TZ, epoch, offset in force at that epoch) - worked out by hand from the rules in the TZ string
DST_POINTS = (
    ("EST5EDT,M3.2.0,M11.1.0", 1_720_000_000, -14400),   # 3 Jul 2024: New York on daylight time
    ("EST5EDT,M3.2.0,M11.1.0", 1_700_000_000, -18000),   # 14 Nov 2023: standard time
    ("CET-1CEST,M3.5.0,M10.5.0/3", 1_720_000_000, 7200),  # central Europe, summer
    ("CET-1CEST,M3.5.0,M10.5.0/3", 1_705_000_000, 3600),  # 11 Jan 2024, winter
    ("AEST-10AEDT,M10.1.0,M4.1.0/3", 1_705_000_000, 39600),  # Sydney: January is summer
    ("AEST-10AEDT,M10.1.0,M4.1.0/3", 1_720_000_000, 36000),
    ("<+1030>-10:30<+11>-11,M10.1.0,M4.1.0", 1_705_000_000, 39600),  # Lord Howe style half-hour shift
)


def budgets(tier: str) -> dict:
    if tier == "quick":
        return {"examples": 2400, "shards": 4}
    return {"examples": 80000, "shards": 16}


def _lines():
    node = st.sampled_from((1, 2, 3, 0))
    child = st.sampled_from((0, 1))
    # value types inside and outside the per-version tables (47 = V_TEXT is 2.x only; 57+ exists nowhere): a stored value is a stored value
    vtype = st.sampled_from((0, 2, 0, 2, 47, 57, 24, 99, 255))
    return st.one_of(
        st.sampled_from(("255;255;3;0;3;\n", "255;255;3;0;3;\n", "5;7;3;0;3;\n", "1;255;3;1;3;x\n")),
        st.builds(lambda n, a: f"{n};255;3;{a};6;0\n", node, st.sampled_from((0, 1))),
        st.builds(lambda n: f"{n};255;3;0;1;\n", node),
        st.builds(lambda n, c, t: f"{n};{c};2;0;{t};\n", node, child, vtype),
        st.builds(lambda n, c, t: f"{n};{c};2;0;{t};\n", node, child, vtype),
        st.builds(lambda n, c, t, p: f"{n};{c};1;0;{t};{p}\n", node, child, vtype, gen.short_payloads),
        st.builds(lambda n, c, t, p: f"{n};{c};1;0;{t};{p}\n", node, child, vtype, gen.short_payloads),
        st.sampled_from(("0;255;3;0;14;Gateway startup complete.\n", "0;255;3;0;9;log line\n", "3;255;3;0;9;x\n")),
        st.sampled_from(("0;255;3;0;2;2.2.0\n", "0;255;3;0;2;1.5\n", "0;255;3;0;2;2.0.1\n", "0;255;0;0;18;2.1.1\n", "0;255;3;0;2;garbage\n")),
        st.builds(lambda n, v: f"{n};255;0;0;17;{v}\n", node, st.sampled_from(("2.0", "1.4"))),
        st.builds(lambda n, c: f"{n};{c};0;0;6;desc\n", node, child),
        st.builds(lambda n, t, p: f"{n};255;3;0;{t};{p}\n", node, st.sampled_from((0, 11, 12, 22, 32, 21, 18, 13, 4, 20)), st.sampled_from(("5", "1", "name"))),
        st.builds(lambda n, t: f"{n};255;3;0;{t};\n", node, st.sampled_from((40, -1, 15, 29))),
        st.builds(lambda n, t: f"{n};255;4;0;{t};\n", node, st.sampled_from((0, 9))),
        st.sampled_from(("junk\n", "1;2\n", "1;255;1;0;0;5\n", "")),
    )


@st.composite
def _registry(draw) -> dict:
    reg: dict = {}
    for node in draw(st.lists(st.sampled_from((0, 1, 2, 3, 1, 2, 3, 253)), max_size=3, unique=True)):
        children = {}
        for child in draw(st.lists(st.sampled_from((0, 1)), max_size=2, unique=True)):
            values = draw(st.dictionaries(st.sampled_from(("0", "2", "47", "57", "99")), gen.short_payloads, max_size=2))
            children[str(child)] = {"child_id": child, "child_type": 6, "description": "", "values": values}
        reg[str(node)] = {
            "node_id": node, "node_type": 17, "protocol_version": "2.0", "sketch_name": "", "sketch_version": "",
            "battery_level": 0, "heartbeat": 0, "sleeping": draw(st.booleans()), "children": children,
            "reboot": draw(st.sampled_from((False, True))),
        }
    return reg


def strategy(tier: str):
    # what the application sends meanwhile (parked for sleeping nodes): the reactions must not be influenced by it
    send = st.builds(lambda n, c, cmd, t, p, b: ["send", [n, c, cmd, 0, t, p if cmd == 1 else ""], b], st.sampled_from((1, 2, 3)), st.sampled_from((0, 1)), st.sampled_from((1, 1, 1, 2)),
                     st.sampled_from((0, 2)), gen.short_payloads, st.sampled_from((None, None, False)))
    op = gen.weighted(
        (8, gen.with_ack(_lines()).map(lambda l: ["rx", l])),
        (2, send),
        (1, st.builds(lambda n, v: ["flag", n, "reboot", v], st.sampled_from((1, 2, 3)), st.booleans())),
        (1, st.builds(lambda v: ["metric", v], st.booleans())),
        (1, st.sampled_from((["read_error", "read"], ["read_error", "failed"], ["save"], ["reload"], ["session"], ["session"]))),
        (1, st.sampled_from((1, 9, 11, 61, 901, 86400)).map(lambda t: ["sleep", t])),  # nothing arrives for a while: nothing is written either
    )
    return st.fixed_dictionaries(
        {
            "version": st.one_of(st.none(), st.none(), gen.versions_any, gen.versions_any, gen.versions_any),
            "metric": st.booleans(),
            "tz": st.sampled_from(sorted(ZONES)),
            "epoch": st.one_of(st.sampled_from((0, 1, 86399, 1_700_000_000, 2_000_000_000)), st.integers(0, 4_000_000_000)),
            "registry": _registry(),
            "ops": st.lists(op, min_size=5, max_size=20),
            "listen_mode": st.sampled_from(("fresh", "persistent")),
            "debug_log": st.sampled_from((False, False, True)),
            "persistence_file": st.sampled_from((None, None, None, "unwritable")),  # a configured registry file on a full / read-only disk
        }
    )


def opt_cases(tier: str):
    """Cases also executed by an interpreter started with -O (see vf/optpass.py)."""
    return drive.opt_sweep_cases(tier)


def enumerate_cases(tier: str):
    # one event of every kind under every environment dimension (transport kind, logging, warnings, a bystander gateway, registry file, ...)
    yield from drive.all_sweep_cases()
    # every value type around and beyond the per-version tables: stored from a file, stored by a set, never stored; then requested
    types = list(range(0, 60)) + [99, 200, 255, 2**31]
    for version in (None, "1.4", "1.5", "2.0", "2.1", "2.2"):
        stored = {"1": {"node_id": 1, "node_type": 17, "protocol_version": "2.0", "sketch_name": "", "sketch_version": "", "battery_level": 0, "heartbeat": 0,
                        "sleeping": False, "reboot": False,
                        "children": {"0": {"child_id": 0, "child_type": 6, "description": "", "values": {str(t): (f"v{t}", "x" * 26, "é" * 20, "L" * 300, "", "a;b")[t % 6] for t in types}},
                                     "1": {"child_id": 1, "child_type": 3, "description": "", "values": {}}}}}
        ops = [["rx", f"1;0;2;0;{t};\n"] for t in types]
        ops += [op for t in types for op in (["rx", f"1;1;2;0;{t};\n"], ["rx", f"1;1;1;0;{t};w{t}\n"], ["rx", f"1;1;2;1;{t};\n"])]
        for mode in ("fresh", "persistent"):
            yield {"version": version, "metric": True, "tz": "UTC0", "epoch": 1_700_000_000, "registry": stored, "ops": ops, "listen_mode": mode}
    # a value is stored AND a different one is parked for the same child/type of a sleeping node: the request gets the stored one
    for version in (None, "1.5", "2.0", "2.2"):
        reg = {"7": {"node_id": 7, "node_type": 17, "protocol_version": "2.0", "sketch_name": "", "sketch_version": "", "battery_level": 0, "heartbeat": 0, "sleeping": True, "reboot": False,
                     "children": {"3": {"child_id": 3, "child_type": 3, "description": "", "values": {"2": "0", "0": "20.5"}}}}}
        for ack in (0, 1):
            ops = [["send", [7, 3, 1, 0, 2, "1"], None], ["rx", f"7;3;2;{ack};2;\n"], ["send", [7, 3, 1, 1, 0, "99"], None], ["rx", f"7;3;2;{ack};0;\n"], ["send", [7, 3, 2, 0, 2, ""], None], ["rx", f"7;3;2;{ack};2;\n"]]
            for mode in ("fresh", "persistent"):
                yield {"version": version, "metric": True, "tz": "UTC0", "epoch": 1_700_000_000, "registry": reg, "ops": ops, "listen_mode": mode}
    # idle time after each kind of message (version unknown and known): the controller writes only in reaction to a received message
    idle_lines = ["1;255;3;0;0;55\n", "1;0;1;0;0;5\n", "1;0;2;0;0;\n", "9;9;1;0;0;1\n", "255;255;3;0;3;\n", "1;255;3;0;6;0\n", "1;255;3;0;1;\n", "0;255;3;0;14;ready\n",
                  "0;255;3;0;9;log\n", "1;255;3;0;22;7\n", "1;255;3;0;32;500\n", "1;255;3;0;18;\n", "junk\n"]
    idle_reg = {"1": {"node_id": 1, "node_type": 17, "protocol_version": "2.0", "sketch_name": "", "sketch_version": "", "battery_level": 0, "heartbeat": 0, "sleeping": False, "reboot": True,
                      "children": {"0": {"child_id": 0, "child_type": 6, "description": "", "values": {"0": "20"}}}}}
    for version in (None, "1.5", "2.2"):
        ops = []
        for line in idle_lines:
            ops += [["rx", line], ["sleep", 11], ["sleep", 120]]
        ops += [["sleep", 3600], ["sleep", 86400]]
        for mode in ("fresh", "persistent"):
            yield {"version": version, "metric": True, "tz": "UTC0", "epoch": 1_700_000_000, "registry": idle_reg, "ops": ops, "listen_mode": mode}
    # a second session on the same gateway object (reconnect): every reaction as in the first
    react = ["0;255;3;0;14;Gateway startup complete.\n", "255;255;3;0;3;\n", "1;255;3;0;6;0\n", "1;255;3;0;1;\n", "1;0;2;0;0;\n", "1;0;1;0;0;5\n", "9;9;1;0;0;1\n", "1;255;3;0;22;7\n"]
    for version in (None, "1.5", "2.0", "2.2"):
        ops = [["session"]] + [["rx", l] for l in react] + [["session"]] + [["rx", l] for l in react] + [["session"], ["session"]] + [["rx", l] for l in react]
        for mode in ("fresh", "persistent"):
            yield {"version": version, "metric": True, "tz": "UTC0", "epoch": 1_700_000_000, "registry": idle_reg, "ops": ops, "listen_mode": mode}
    # zones that observe daylight saving, asked in their summer and in their winter: the reply is the controller's local time
    for tz, epoch, offset in DST_POINTS:
        for version in (None, "1.4", "2.0", "2.2"):
            yield {"version": version, "metric": True, "tz": tz, "epoch": epoch, "offset": offset, "registry": idle_reg, "listen_mode": "fresh",
                   "ops": [["rx", "1;255;3;0;1;\n"], ["rx", "0;255;3;0;1;\n"], ["rx", "1;255;3;1;1;0\n"], ["rx", "0;255;3;0;2;2.1.0\n"], ["rx", "1;255;3;0;1;\n"]]}
    # the registry file cannot be written (full or read-only disk): reactions do not depend on it
    for version in (None, "1.5", "2.2"):
        yield {"version": version, "metric": False, "tz": "UTC0", "epoch": 1_700_000_000, "registry": idle_reg, "ops": [["rx", l] for l in react] * 2, "listen_mode": "persistent", "persistence_file": "unwritable"}
    # every internal type around the per-version tables while the version is unknown: each decoded message is followed by the query
    for mode in ("fresh", "persistent"):
        ops = [["rx", f"{n};255;3;{a};{t};1\n"] for t in range(-1, 40) if t != 2 for n, a in ((1, 0), (9, 1))]
        yield {"version": None, "metric": True, "tz": "UTC0", "epoch": 1_700_000_000, "registry": idle_reg, "ops": ops, "listen_mode": mode}
    # every sender id asks for an id, for the time, for the configuration (the answer goes to the asker, not to a fixed address)
    for version in (None, "1.5", "2.2"):
        ops = []
        for node in (0, 1, 12, 200, 254, 255):
            for child in (255, 0, 7):
                ops.append(["rx", f"{node};{child};3;0;3;\n"])
            ops += [["rx", f"{node};255;3;0;1;\n"], ["rx", f"{node};255;3;0;6;0\n"]]
        yield {"version": version, "metric": False, "tz": "<+0530>-5:30", "epoch": 1_700_000_000, "registry": {}, "ops": ops, "listen_mode": "persistent"}


class _ClockShim:
    """Stands in for the `time` module inside the handler module: a clock frozen at `epoch`."""

    def __init__(self, epoch: int) -> None:
        self._epoch = epoch

    def time(self) -> float:
        return float(self._epoch)

    def localtime(self, secs=None):
        return time.localtime(self._epoch if secs is None else secs)

    def gmtime(self, secs=None):
        return time.gmtime(self._epoch if secs is None else secs)

    def __getattr__(self, name):
        return getattr(time, name)


def run_case(case: dict) -> Outcome:
    if case.get("kind") == "envsweep":
        return drive.run_env_case(case, ASPECTS)
    epoch = case["epoch"]
    offset = case["offset"] if "offset" in case else ZONES[case["tz"]]
    saved_tz = os.environ.get("TZ")
    os.environ["TZ"] = case["tz"]
    time.tzset()
    import aiomysensors.model.protocol.protocol_14 as p14

    shimmed = hasattr(p14, "time")
    real_time = getattr(p14, "time", None)
    if shimmed:
        p14.time = _ClockShim(epoch)
    window = {"lo": int(time.time()) - 1}
    seen = {"time": False, "sleeping_reaction": False, "unknown_fail": False, "askers": set()}

    def time_check(value: int) -> str | None:
        seen["time"] = True
        hi = int(time.time()) + 1
        if value == epoch + offset:
            return None
        now_offset = offset if "offset" not in case else calendar.timegm(time.localtime(hi)) - hi  # (zones with daylight saving: the offset now is not the offset at `epoch`)
        if window["lo"] + now_offset <= value <= hi + now_offset:
            return None
        return (
            f"time reply {value}; controller local time is {epoch + offset} (epoch {epoch}, zone {case['tz']} = UTC{offset:+d}s) "
            f"or within [{window['lo'] + offset}, {hi + offset}] on the real clock"
        )

    def after_step(rec, gateway, transport, model):
        pred = rec.pred
        if pred.fields:
            node = pred.fields[0]
            wrote = [w for w in rec.writes if not drive.PRESREQ.match(w) and w != drive.VERSION_QUERY]
            if wrote:
                seen["askers"].add(node)
                if str(node) in rec.before and rec.before[str(node)]["sleeping"]:
                    seen["sleeping_reaction"] = True
            if rec.outcome != "ok" and drive.VERSION_QUERY in rec.writes:
                seen["unknown_fail"] = True
        return None

    try:
        from vf.vloop import run_virtual

        # on the virtual-time loop: idle periods of seconds to hours between messages cost nothing
        (bad, info), _loop = run_virtual(lambda: drive.run_history(case, ASPECTS, hooks={"time_check": time_check, "after_step": after_step}))
    finally:
        if shimmed:
            p14.time = real_time
        if saved_tz is None:
            os.environ.pop("TZ", None)
        else:
            os.environ["TZ"] = saved_tz
        time.tzset()
    classes = tuple(sorted(info["classes"])) + (f"version={'unknown' if case['version'] is None else 'known'}",)
    if seen["sleeping_reaction"]:
        classes += ("reaction-to-sleeping-requester",)
    if seen["unknown_fail"]:
        classes += ("version-query-after-failing-handler",)
    if bad is not None:
        bad.classes = classes
        return bad
    nontrivial = seen["sleeping_reaction"] or seen["unknown_fail"] or len(seen["askers"]) >= 2 or (seen["time"] and offset != 0)
    return Outcome(ok=True, nontrivial=nontrivial, classes=classes)
