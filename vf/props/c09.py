"""C09 - no set command is lost when send races with the wake-up flush (DESIGN 4.9)."""

from __future__ import annotations

import asyncio
import itertools

from hypothesis import strategies as st

from vf import env
from vf.runner import Outcome, fail

ID = "C09"
LEVEL = "exploration"
DESIGN_REF = "4.9"
RULE = (
    "a case is a configuration: version (2.0/2.1 heartbeat wake, 2.2 pre-sleep wake) x k initially parked commands for sleeping node 1 "
    "(k=1..4, optionally one more for node 2) x 1-3 sender tasks, each sending one set command with a unique value to a parked key, an "
    "unparked key of node 1 or a key of node 2, with buffering on or off. For each configuration EVERY schedule is executed (stateless "
    "depth-first enumeration of the choices 'start the listener that consumes the wake', 'start sender i', 'release blocked transport write "
    "j'; the transport parks every write on a future, so these are all interleavings at write suspension points); evaluations counts "
    "executed schedules. At quiescence both nodes wake once more with writes unblocked. Oracle on the write log (ordered by write call): per "
    "key a write exists and the last written value is not superseded (no other send to that key was invoked after the send of that value "
    "completed); every written value was sent; no value is written more often than sent; all tasks finish without error. Non-trivial = some "
    "schedule had a send to node 1 complete while a flush write was blocked; distinct = distinct configuration."
    ' Round 5: senders may set the ack flag.'
    ' Round 6: `keys=collide` (ids whose digits concatenate equally) and `prior` (earlier quiet wakes already delivered the racing values).'
    ' Round 7: `reuse` senders re-send the object an earlier wake delivered.'
    ' Round 8: `keys=types` (cover up/down/stop), `listener=persistent`.'
    ' Round 9: `debug_log`; sent Message objects are not kept alive by the harness.'
    ' Round 13: the gateway reports its unchanged version again among the `pre_lines`; `node_type` of the sleeping nodes (repeater, unlisted).'
    ' Round 12: `wake_counters` (the counter carried by successive wake lines shrinks, repeats or restarts).'
    ' Round 14: `node_flags` (reboot requested, battery 0/100, high stored counter on the sleeping nodes).'
    ' Round 11: a sender may send an internal command (heartbeat request) instead of a set; `listen_line` (the line that arrives during the race is the node asking for a parked key, not its wake).'
    " Round 10: `pre_lines` (pre/post-sleep notifications, other nodes' heartbeats); rule buffered-send-written-directly; a bystander gateway whose node of the same id wakes."
)
ASSUMPTIONS = [
    "suspension points of send/flush are transport writes (plus whatever the loop needs to settle: a schedule step waits until six loop iterations pass without progress)",
    "write order is the order in which the library calls Transport.write; send order is an interval order (invocation/completion)",
]
DELETABLE = ("senders",)
MAX_SCHEDULES = 6000

NODE1_KEYS = ((1, 0, 0), (1, 1, 0), (1, 0, 2), (1, 1, 2))
OTHER_KEY = (2, 0, 0)
REGISTRY = {
    "1": {"sleeping": True, "children": {"0": {"child_type": 3}, "1": {"child_type": 3}}},
    "2": {"sleeping": True, "children": {"0": {"child_type": 3}, "1": {"child_type": 3}}},
}


# ids whose digits concatenate to the same string ("1"+"1"+"23" == "1"+"12"+"3" == "11"+"2"+"3"): distinct keys all the same
COLLIDE_NODE1_KEYS = ((1, 1, 23), (1, 12, 3), (1, 1, 2), (1, 12, 23))
COLLIDE_OTHER_KEY = (11, 2, 3)
COLLIDE_REGISTRY = {
    "1": {"sleeping": True, "children": {"1": {"child_type": 3}, "12": {"child_type": 3}}},
    "11": {"sleeping": True, "children": {"2": {"child_type": 3}}},
}


# lines that may arrive between the parking and the wake (no wake of node 1, no re-presentation of node 1 among them)
PRE_LINES = ("1;255;3;0;33;\n", "1;255;3;0;0;55\n", "1;0;1;0;0;7\n", "1;0;2;0;0;\n", "1;255;3;0;11;s\n", "1;255;3;0;18;\n", "1;255;3;0;21;\n", "0;255;3;0;9;log\n", "0;255;3;0;14;ready\n",
             "1;255;3;0;6;0\n", "1;1;0;0;3;relay\n", "junk\n", "1;255;4;0;0;00\n",
             # the gateway reports its (unchanged) version again - as an answer to a version request, or by presenting itself after a restart
             "0;255;3;0;2;@VERSION@\n", "0;255;0;0;18;@VERSION@\n", "0;255;3;0;2;\n")

# value types that belong together semantically (cover up / down / stop, dimmer, RGB...): every one is a key of its own
TYPES_NODE1_KEYS = ((1, 0, 29), (1, 0, 30), (1, 0, 31), (1, 1, 29))
TYPES_OTHER_KEY = (2, 0, 30)


def budgets(tier: str) -> dict:
    if tier == "quick":
        return {"examples": 12, "shards": 4, "enum_shards": 12}
    return {"examples": 0, "shards": 16, "enum_shards": 16, "exhaustive_claim": True,
            "bounds": "versions 2.1 and 2.2; 1-4 parked commands (+0/1 for the other node); 1-3 senders over {parked key, second parked key, unparked key, other node's key} x buffering on/off; all schedules per configuration"}


def _sender_options(k: int):
    keys = [0]
    if k >= 2:
        keys.append(1)
    keys.append(3 if k < 4 else 2)  # a key that is not parked when one exists
    keys.append("other")
    return [(key, buf) for key in keys for buf in (True, False)]


def enumerate_cases(tier: str):
    if tier == "quick":
        spaces = [("2.1", k, ns, other) for k in (1, 2) for ns in (1, 2) for other in (0,)] + [("2.2", 2, 2, 1)]
        for version in ("2.0", "2.2"):
            # every parked key re-sent while the flush is under way (more pending commands than one wake started with)
            yield {"version": version, "parked": 4, "other_parked": 0, "senders": [[0, True], [1, True], [2, True]]}
            yield {"version": version, "parked": 3, "other_parked": 1, "senders": [[0, True], [0, True], [3, True]]}
            yield {"version": version, "parked": 2, "other_parked": 0, "senders": [[0, True], [0, True, "dup"]]}
            yield {"version": version, "parked": 2, "other_parked": 0, "senders": [[1, True], [1, True, "req"]]}
            yield {"version": version, "parked": 1, "other_parked": 0, "senders": [[0, True, "req"]]}
            yield {"version": version, "parked": 1, "other_parked": 0, "senders": [[0, True], [0, True, "dup"], [0, True]]}
            for senders in ([[0, True]], [[1, True]], [[3, True]], [["other", True]], [[0, True], [1, True]]):
                yield {"version": version, "parked": 2, "other_parked": 1, "senders": senders, "keys": "collide"}
                yield {"version": version, "parked": 2, "other_parked": 0, "senders": senders, "prior": True}
            yield {"version": version, "parked": 3, "other_parked": 1, "senders": [[2, True], [0, True]], "keys": "collide", "prior": True}
            for line in PRE_LINES:
                yield {"version": version, "parked": 2, "other_parked": 0, "senders": [[0, True], [1, True]], "pre_lines": [line]}
            for senders in ([[0, True]], [[1, True]], [[3, True]]):
                yield {"version": version, "parked": 2, "other_parked": 0, "senders": senders, "bystander": True}
            for node_type in (18, 0, 99):
                for senders in ([[0, True]], [[0, True], [1, True]], [["other", True]]):
                    yield {"version": version, "parked": 2, "other_parked": 1, "senders": senders, "node_type": node_type}
            # the application flagged the sleeping nodes for a reboot (sent when the node next sets a value - no wake or request does that), battery flat / full, a high stored counter
            for flags in ({"reboot": True}, {"battery_level": 0}, {"battery_level": 100}, {"heartbeat": 99999}, {"reboot": True, "heartbeat": 99999, "battery_level": 1}):
                for senders in ([[0, True]], [[0, True], [1, True]], [["other", True]], [[3, True], [1, False]]):
                    yield {"version": version, "parked": 2, "other_parked": 1, "senders": senders, "node_flags": flags}
                yield {"version": version, "parked": 2, "other_parked": 0, "senders": [[0, True]], "node_flags": flags, "listen_line": "req0"}
            # the counter in the wake lines shrinks, repeats or restarts from one wake to the next (a node that rebooted)
            for counters in ([9, 5, 1], [5, 5, 5], [1, 2, 0], [100, 1], [0, 0], [7, -1]):
                for senders in ([[0, True]], [[0, True], [1, True]]):
                    yield {"version": version, "parked": 2, "other_parked": 0, "senders": senders, "wake_counters": counters}
                    yield {"version": version, "parked": 2, "other_parked": 0, "senders": senders, "wake_counters": counters, "prior": True}
            # one of the tasks sends an internal command to the sleeping node (a heartbeat request); or what arrives during the race is
            # the node's own request for a parked key, not its wake
            for senders in ([[0, True, "hb"]], [[0, True, "hb"], [0, True]], [[1, False, "hb"], [0, True]], [["other", True, "hb"], [1, True]]):
                yield {"version": version, "parked": 2, "other_parked": 0, "senders": senders}
            for senders in ([[0, True]], [[1, True]], [[0, True], [1, True]], [[3, True]]):
                for which in ("req0", "req1"):
                    yield {"version": version, "parked": 2, "other_parked": 0, "senders": senders, "listen_line": which}
            for senders in ([[0, True]], [[1, True]], [[1, True], [2, True]], [[2, True], [1, True]], [[0, True], [1, True], [2, True]]):
                yield {"version": version, "parked": 2, "other_parked": 1, "senders": senders, "keys": "types"}
                yield {"version": version, "parked": 2, "other_parked": 0, "senders": senders, "listener": "persistent"}
                yield {"version": version, "parked": 2, "other_parked": 0, "senders": senders, "debug_log": True}
            for senders in ([[0, True, "reuse"]], [[1, True, "reuse"]], [[0, True, "reuse"], [1, True]], [[3, True, "reuse"]]):
                yield {"version": version, "parked": 2, "other_parked": 0, "senders": senders, "prior": True}
            for senders in ([[0, True, "ack"]], [[1, True, "ack"]], [[1, True, "ack"], [0, True]], [[1, True], [1, True, "ack"]], [[2, True, "ack"], [1, False, "ack"]]):
                yield {"version": version, "parked": 3, "other_parked": 0, "senders": senders}
            for senders in ([[0, True]], [[1, True]], [[1, True], [0, True]], [[3, True], [1, False]]):
                yield {"version": version, "parked": 2, "other_parked": 0, "senders": senders, "represented": True}
                yield {"version": version, "parked": 2, "other_parked": 0, "senders": senders, "reported": True}
    else:
        spaces = [(v, k, ns, other) for v in ("2.1", "2.2") for k in (1, 2, 3, 4) for ns in (1, 2, 3) for other in (0, 1)]
        spaces = [s for s in spaces if not (s[0] == "2.2" and s[2] == 3 and s[1] > 2)]
    for version, k, ns, other in spaces:
        opts = _sender_options(k)
        for combo in itertools.combinations_with_replacement(opts, ns):
            yield {"version": version, "parked": k, "other_parked": other, "senders": [[key, buf] for key, buf in combo]}
            if tier == "thorough" and ns <= 2 and k <= 3 and other == 0:
                yield {"version": version, "parked": k, "other_parked": other, "senders": [[key, buf] for key, buf in combo], "represented": True}
                yield {"version": version, "parked": k, "other_parked": other, "senders": [[key, buf, "dup"] for key, buf in combo]}
                yield {"version": version, "parked": k, "other_parked": other, "senders": [[key, buf, "ack"] for key, buf in combo]}


def strategy(tier: str):
    sender = st.tuples(st.sampled_from((0, 1, 2, 3, "other")), st.booleans(), st.sampled_from(("new", "new", "new", "dup", "req", "ack", "reuse", "hb"))).map(list)
    return st.fixed_dictionaries(
        {
            "version": st.sampled_from(("2.0", "2.1", "2.2")),
            "parked": st.integers(1, 4),
            "other_parked": st.integers(0, 1),
            "senders": st.lists(sender, min_size=1, max_size=3),
            "represented": st.booleans(),
            "reported": st.booleans(),
            "keys": st.sampled_from(("plain", "collide", "types")),
            "debug_log": st.sampled_from((False, False, True)),
            "pre_lines": st.one_of(st.just([]), st.lists(st.sampled_from(PRE_LINES), min_size=1, max_size=2)),
            "bystander": st.sampled_from((False, False, True)),
            "listener": st.sampled_from(("fresh", "persistent")),
            "prior": st.booleans(),
            "listen_line": st.sampled_from(("wake", "wake", "wake", "req0", "req1")),
            "wake_counters": st.sampled_from(([5], [5], [9, 5, 1], [1, 2, 3], [3, 3, 3], [100, 0])),
            "node_type": st.sampled_from((None, None, None, 17, 18, 0)),
            "node_flags": st.sampled_from((None, None, None, {"reboot": True}, {"battery_level": 0}, {"heartbeat": 99999, "reboot": True})),
        }
    )


class GatedTransport(env.RecordingTransport):
    def __init__(self) -> None:
        super().__init__()
        self.gating = False
        self.blocked: list = []  # [line, future]
        self.calls: list[tuple[int, str]] = []  # (tick, line) in call order
        self.clock = [0]
        self.progress = 0
        self.failed_calls: set[str] = set()
        self.failed_indices: set[int] = set()
        self.call_blocked_index: dict[int, int] = {}

    def tick(self) -> int:
        self.clock[0] += 1
        self.progress += 1
        return self.clock[0]

    async def write(self, decoded_message: str) -> None:
        self.calls.append((self.tick(), decoded_message))
        if self.gating:
            fut = asyncio.get_running_loop().create_future()
            self.call_blocked_index[len(self.calls) - 1] = len(self.blocked)
            self.blocked.append([decoded_message, fut])
            try:
                await fut
            finally:
                self.progress += 1


async def _settle(transport: GatedTransport, tasks: list) -> None:
    quiet = 0
    last = (transport.progress, sum(1 for t in tasks if t.done()))
    for _ in range(2000):
        await asyncio.sleep(0)
        now = (transport.progress, sum(1 for t in tasks if t.done()))
        if now == last:
            quiet += 1
            if quiet >= 6:
                return
        else:
            quiet, last = 0, now
    raise RuntimeError("event loop never settles")


def _key_of(line: str) -> tuple[int, int, int]:
    parts = line.split(";")
    return int(parts[0]), int(parts[1]), int(parts[4])


async def _run_schedule(case: dict, schedule: list[int]) -> tuple[Outcome | None, list[int], dict]:
    version = case["version"]
    wake_type = 32 if version == "2.2" else 22
    transport = GatedTransport()
    gateway, _ = env.make_gateway(version, transport=transport)
    collide = case.get("keys") == "collide"
    NODE1_KEYS, OTHER_KEY = (COLLIDE_NODE1_KEYS, COLLIDE_OTHER_KEY) if collide else (globals()["NODE1_KEYS"], globals()["OTHER_KEY"])
    if case.get("keys") == "types":
        NODE1_KEYS, OTHER_KEY = TYPES_NODE1_KEYS, TYPES_OTHER_KEY
    # one long-lived listen() generator for every received line (the README's `async for`), or a fresh one per line
    shared_listener = env.Listener(gateway) if case.get("listener") == "persistent" else None

    async def receive(line: str):
        return await (shared_listener.next(line) if shared_listener is not None else env.rx(gateway, line))

    counters = list(case.get("wake_counters") or [5])  # what the successive wake lines of node 1 carry (a counter may grow, repeat or restart)

    def next_counter() -> str:
        return str(counters.pop(0) if len(counters) > 1 else counters[0])

    registry = COLLIDE_REGISTRY if collide else REGISTRY
    if case.get("reported"):
        # both children of node 1 have already reported "s0" for both value types: a send of "s0" looks redundant
        registry = {k: dict(v, children={c: dict(cv, values={"0": "s0", "2": "s0", "3": "s0", "23": "s0"}) for c, cv in v["children"].items()}) for k, v in registry.items()}
    if case.get("node_type") is not None:
        # the sleeping nodes are repeaters, or carry a type no table lists (restored from a file): sleeping is sleeping
        registry = {k: dict(v, node_type=int(case["node_type"])) for k, v in registry.items()}
    if case.get("node_flags"):
        # public attributes of the sleeping nodes the application (or a restored file) has set: the reboot request flag, battery level, heartbeat counter
        registry = {k: dict(v, **case["node_flags"]) for k, v in registry.items()}
    env.install_registry(gateway.nodes, registry)
    sends: list[dict] = []  # {key, value, inv, comp}
    listen_tick: list = [None]

    req_lines: list[str] = []

    prior_msgs: dict = {}

    async def do_send(key, value, buffer, ack: int = 0, message=None, keep: bool = False) -> tuple[str, object]:
        if isinstance(value, tuple):
            # an internal command of the application (e.g. a heartbeat request to the node): written or held by the library, not judged here
            return await env.send(gateway, env.mk_message(list(value[1])), buffer)
        if value is None:
            req_lines.append(f"{key[0]};{key[1]};2;0;{key[2]};\n")
            return await env.send(gateway, env.mk_message([key[0], key[1], 2, 0, key[2], ""]), buffer)
        rec = {"key": key, "value": value, "inv": transport.tick(), "comp": None, "buffered": bool(buffer), "racing": listen_tick[0] is not None}
        sends.append(rec)
        calls_before = len(transport.calls)
        if message is None:
            message = env.mk_message([key[0], key[1], 1, ack, key[2], value])
        if keep:
            rec["message"] = message  # (only the constant command objects of "reuse" senders are kept alive by the application)
        result = await env.send(gateway, message, buffer)
        del message
        rec["comp"] = transport.tick()
        # parked = the call returned without handing this line to the transport
        rec["parked"] = not any(line.rstrip("\n").split(";", 5)[5] == value and _key_of(line) == key for _t, line in transport.calls[calls_before:])
        node_obj = gateway.nodes.get(key[0])
        rec["direct_while_sleeping"] = bool(buffer) and not rec["parked"] and listen_tick[0] is None and any(r is not rec and r["key"] == key and r.get("parked") for r in sends)
        return result

    k = case["parked"]
    if case.get("prior"):
        # earlier, quiet wake cycles already delivered the very values the racing senders will send again
        for idx, sender in enumerate(case["senders"]):
            if sender[0] != "other" and sender[1] and not (len(sender) > 2 and sender[2] in ("dup", "req")):  # (buffered senders only: a written value must be attributable)
                await do_send(NODE1_KEYS[sender[0]], f"s{idx}", True, keep=len(sender) > 2 and sender[2] == "reuse")
                prior_msgs[idx] = sends[-1].get("message")
        await receive(f"1;255;3;0;{wake_type};{next_counter()}\n")
        if any(rec["parked"] for rec in sends) and not transport.calls:
            return Outcome(ok=True, classes=("diverged-elsewhere",)), [], {}
    prior_calls = len(transport.calls)
    for idx in range(k):
        await do_send(NODE1_KEYS[idx], f"p{idx}", True)
    if case.get("other_parked"):
        await do_send(OTHER_KEY, "po", True)
    if len(transport.calls) != prior_calls:
        return Outcome(ok=True, classes=("diverged-elsewhere",)), [], {}
    pre_start = len(transport.calls)
    for line in case.get("pre_lines", ()):
        # what the node (or the gateway) says between the parking and the wake; none of it is a wake of node 1
        await receive(line.replace("@VERSION@", version + ".0"))
    pre_calls = len(transport.calls)
    bystander = None
    if case.get("bystander"):
        # a second gateway in the same process (another network) whose node with the same id wakes with nothing parked
        bystander, _bt = env.make_gateway(version)
        env.install_registry(bystander.nodes, registry)
        await env.rx(bystander, f"1;255;3;0;{wake_type};5\n")
    transport.gating = True

    if case.get("represented"):
        # the node presented itself again while commands were parked: it is not flagged sleeping when its wake arrives
        transport.gating = False
        await receive("1;255;0;0;17;2.0\n")
        transport.calls.clear()
        pre_start = pre_calls = 0  # (the log starts over: nothing written so far is looked at)
        transport.gating = True
    specs = []
    for idx, sender in enumerate(case["senders"]):
        kref, buf = sender[0], sender[1]
        key = OTHER_KEY if kref == "other" else NODE1_KEYS[kref]
        value = f"s{idx}"
        if len(sender) > 2 and sender[2] == "dup" and kref != "other" and kref < k:
            value = f"p{kref}"  # the same value as the parked (possibly in-flight) command, in a new Message object
        if len(sender) > 2 and sender[2] == "req":
            value = None  # this task asks the node for the value instead of setting it (command 2, same key)
        if len(sender) > 2 and sender[2] == "hb":
            value = ("raw", [key[0], 255, 3, 0, 18, ""])  # this task asks the node for a heartbeat (internal command 18)
        # "ack": the command asks the node to echo it (ack flag set); that changes nothing about buffering
        # "reuse": the application keeps constant command objects (ON / OFF) and sends the very object an earlier wake delivered
        reused = prior_msgs.get(idx) if len(sender) > 2 and sender[2] == "reuse" else None
        specs.append((key, value, buf, 1 if len(sender) > 2 and sender[2] == "ack" else 0, reused))
    listener = None
    faults_left = [int(case.get("faults", 0))]
    info_faults: list[int] = []
    sender_tasks: dict[int, asyncio.Task] = {}
    factors: list[int] = []
    flags = {"raced": False}
    pos = 0
    trace = []
    while True:
        tasks = ([listener] if listener else []) + list(sender_tasks.values())
        await _settle(transport, tasks)
        enabled = []
        if listener is None:
            enabled.append(("listen", None))
        for idx in range(len(specs)):
            if idx not in sender_tasks:
                enabled.append(("start", idx))
        for j, (_line, fut) in enumerate(transport.blocked):
            if not fut.done():
                enabled.append(("release", j))
                if faults_left[0] > 0:
                    enabled.append(("fail", j))
        if not enabled:
            break
        choice = schedule[pos] if pos < len(schedule) else 0
        choice %= len(enabled)
        factors.append(len(enabled))
        pos += 1
        kind, arg = enabled[choice]
        trace.append(f"{kind}{'' if arg is None else arg}")
        if kind == "listen":
            listen_tick[0] = transport.tick()
            racing_line = f"1;255;3;0;{wake_type};{next_counter()}\n"
            if str(case.get("listen_line", "")).startswith("req") and not case.get("represented") and not case.get("reported"):
                # what arrives while the senders run is not the wake but the node asking for the value of one of the parked keys
                rkey = NODE1_KEYS[int(case["listen_line"][3:]) % len(NODE1_KEYS)]
                racing_line = f"{rkey[0]};{rkey[1]};2;0;{rkey[2]};\n"
            listener = asyncio.ensure_future(receive(racing_line))
        elif kind == "start":
            key, value, buf, ack, reused = specs[arg]
            flush_blocked = any(not fut.done() and _key_of(line)[0] == 1 for line, fut in transport.blocked)
            if flush_blocked and key[0] == 1 and listener is not None and not listener.done():
                flags["raced"] = True
            sender_tasks[arg] = asyncio.ensure_future(do_send(key, value, buf, ack, reused))
        elif kind == "fail":
            faults_left[0] -= 1
            info_faults.append(arg)
            from aiomysensors.exceptions import TransportFailedError

            transport.blocked[arg][1].set_exception(TransportFailedError("injected write fault"))
            transport.failed_calls.add(transport.blocked[arg][0] + f"#{arg}")
            transport.failed_indices.add(arg)
        else:
            transport.blocked[arg][1].set_result(None)
    tasks = [listener] + list(sender_tasks.values())
    info = {"trace": trace, "raced": flags["raced"]}
    if any(not t.done() for t in tasks):
        for t in tasks:
            t.cancel()
        return fail("tasks-never-finish", f"schedule {trace}: tasks still pending with nothing left to release"), factors, info
    for t in tasks:
        status, value = t.result()
        if status != "ok":
            from aiomysensors.exceptions import TransportError

            if status == "liberr" and isinstance(value, TransportError) and info_faults:
                continue  # an injected write fault is reported to whoever was writing
            sig = f"leak:{env.exc_sig(value)}" if status == "leak" else f"task-raised:{type(value).__name__}"
            return fail(sig, f"schedule {trace}: {value!r}"), factors, info
    transport.gating = False
    if bystander is not None:
        await env.rx(bystander, f"1;255;3;0;{wake_type};6\n")
    for node in (1, OTHER_KEY[0]):
        status, value = await receive(f"{node};255;3;0;{wake_type};{next_counter() if node == 1 else 5}\n")
        if status == "drained":
            return fail("final-wake-swallowed", f"schedule {trace}: the wake line of node {node} was consumed but neither yielded nor rejected"), factors, info
        if status != "ok":
            return fail(f"final-wake-raised:{type(value).__name__}", f"schedule {trace}: {value!r}"), factors, info

    # ---- oracle on the log
    by_key: dict = {}
    for rec in sends:
        by_key.setdefault(rec["key"], []).append(rec)
    written: dict = {}
    for call_idx, (_tick, line) in enumerate(transport.calls):
        parts = line.rstrip("\n").split(";", 5)
        if parts[2] != "1":
            continue
        if pre_start <= call_idx < pre_calls:
            continue  # (an answer to what the node asked between parking and wake - a stored value echoed back - not a release)
        if transport.call_blocked_index.get(call_idx) in transport.failed_indices:
            continue  # this write attempt failed: nothing reached the wire
        key, value = _key_of(line), parts[5]
        sent_values = [r["value"] for r in by_key.get(key, [])]
        if value not in sent_values:
            return fail("wrote-unsent-value", f"schedule {trace}: wrote {line!r}, values sent for that key: {sent_values}"), factors, info
        written.setdefault(key, []).append(value)
    for line in set(req_lines):
        count = sum(1 for _t, l in transport.calls if l == line)
        if count != req_lines.count(line):
            return fail("req-command-not-written-once", f"schedule {trace}: value request {line!r} was sent {req_lines.count(line)} times and handed to the transport {count} times"), factors, info
    if not case.get("represented"):
        for rec in sends:
            # the nodes are known to be sleeping throughout (nothing they sent says otherwise): a send with buffering allowed is held,
            # never written on the spot - otherwise the value it overtakes is written after it at the wake
            if rec["buffered"] and not rec["parked"] and not rec["racing"] and rec["inv"] > (0 if not case.get("pre_lines") else -1) and rec.get("direct_while_sleeping"):
                return fail("buffered-send-written-directly", f"schedule {trace}: {rec['value']!r} for key {rec['key']} was written at once although the node is asleep (a parked older value follows it at the wake)"), factors, info
    for key, recs in by_key.items():
        got = written.get(key, [])
        where = f"schedule {trace}: key {key}: sent {[(r['value'], r['inv'], r['comp'], 'buffered' if r['buffered'] else 'direct') for r in recs]}, written {got}"
        for value in set(got):
            if got.count(value) > sum(1 for r in recs if r["value"] == value):
                return fail("value-written-twice", where), factors, info
        for value in {r["value"] for r in recs if not r["buffered"]}:
            n_direct = sum(1 for r in recs if r["value"] == value and not r["buffered"])
            if got.count(value) < n_direct and not info_faults:
                return fail("direct-send-not-written", where), factors, info
        # last-writer-wins among the sends that went through the buffer (a send with buffering
        # disabled bypasses it by request and does not cancel a parked command, also sequentially)
        buffered = [r for r in recs if r["buffered"]]
        got_buffered = [v for v in got if any(r["value"] == v for r in buffered)]
        if not buffered:
            continue
        if any(not r["buffered"] and any(b["value"] == r["value"] for b in buffered) for r in recs):
            # the same value was also sent with buffering disabled: a write of it cannot be attributed to the parked command
            # or to the direct send, so the last-writer rule is not judged for this key (the counts above still are)
            continue
        if not got_buffered:
            return fail("update-lost:never-written", where), factors, info
        last = max((r for r in buffered if r["value"] == got_buffered[-1]), key=lambda r: r["comp"])
        # a newer send supersedes the last written value if it went through the buffer or raced with the flush; one that was
        # written directly before the wake even arrived (node not flagged sleeping then) is sequential history, judged by C07
        newer = [r["value"] for r in buffered if r is not last and r["inv"] > last["comp"] and (r["parked"] or r["racing"])]
        if newer:
            return fail("update-lost:stale-last-write", where + f"; {newer} were sent after {got_buffered[-1]!r} completed"), factors, info
    return None, factors, info


def _explore(case: dict) -> tuple[Outcome | None, int, bool, bool]:
    """Depth-first enumeration of all schedules of one configuration."""
    stack: list[list[int]] = [[]]
    count = 0
    raced = False
    while stack:
        prefix = stack.pop()
        bad, factors, info = env.run(_run_schedule(case, prefix))
        count += 1
        if bad is not None:
            if bad.ok:
                return bad, count, raced, False
            bad.detail = f"{bad.detail} [schedule choices {prefix + [0] * (len(factors) - len(prefix))}]"
            return bad, count, raced, False
        raced = raced or info.get("raced", False)
        for depth in range(len(prefix), len(factors)):
            for alt in range(1, factors[depth]):
                stack.append(prefix + [0] * (depth - len(prefix)) + [alt])
        if count >= MAX_SCHEDULES:
            return None, count, raced, True
    return None, count, raced, False


def run_case(case: dict) -> Outcome:
    with env.debug_logging(bool(case.get("debug_log"))):  # the library logging at DEBUG, as under the bundled CLI
        return _run_case(case)


def _run_case(case: dict) -> Outcome:
    if "schedule" in case:
        bad, _factors, info = env.run(_run_schedule(case, list(case["schedule"])))
        if bad is not None:
            return bad
        return Outcome(ok=True, nontrivial=info.get("raced", False))
    bad, count, raced, truncated = _explore(case)
    classes = (f"version={case['version']}", f"parked={case['parked']}", f"senders={len(case['senders'])}",
               "buffer-off-sender" if any(not s[1] for s in case["senders"]) else "all-buffered") + (("schedule-cap-hit",) if truncated else ())
    if bad is not None:
        if bad.ok:
            return bad
        bad.classes = classes
        bad.extra_evals = count - 1
        return bad
    return Outcome(ok=True, nontrivial=raced, classes=classes, extra_evals=count - 1)
