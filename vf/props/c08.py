"""C08 - the sleep buffer loses nothing and repeats nothing when transport writes fail (DESIGN 4.8)."""

from __future__ import annotations

import itertools
import os
from collections import Counter

from hypothesis import strategies as st

from aiomysensors.exceptions import TransportError

from vf import env
from vf.runner import Outcome, fail

ID = "C08"
LEVEL = "fault_enumeration"
DESIGN_REF = "4.8"
RULE = (
    "cases = version (2.0/2.1/2.2) x 1-4 parked set commands with distinct keys over sleeping nodes 1 and 2 x a sequence of 1-4 wakes x a "
    "set F of write-attempt indices (0-7) at which the transport raises a TransportError (TransportFailedError, the plain base class, or TransportReadError) before recording. After the generated wakes, "
    "fault-free wakes of both nodes are appended until nothing more is written. Oracle over the whole run: a listen step in which a write "
    "failed raises a TransportError; every parked command is successfully written exactly once and never attempted again afterwards; a "
    "command is only written at a wake of its own node; nothing else is written. Thorough enumerates every combination (5 keys, subsets of "
    "size 1-4, wake sequences up to 3, all subsets of attempts 0-5) for the three versions; quick enumerates a slice and samples the rest. "
    "A 'stream' kind replays the law on real asyncio streams over a socketpair: the device sends its wake line and drops the link, the controller reconnects, and the device must end up with every parked command exactly once. A reconnect flag makes the application leave and re-enter the gateway context after a failed flush. A 'race' kind adds schedules: one write of the flush fails while application sends arrive (C09's scheduler, every interleaving and every position of the single fault); the last value sent per key must still be written once both nodes have woken fault-free. Non-trivial = a fault lands inside a flush that had >= 2 commands pending; distinct = distinct case JSON."
    ' Round 5: `between` events (one of every kind, enumerated) arrive between the failed flush and the retry.'
    ' Round 6: `between` also holds re-presentations of the woken node and application events (@send-req, @send-internal, @save, @reload).'
    ' Round 8: `wake_payloads` sequences; `memstream` kind (real stream objects, the link dies with an OS error while the k-th command is written).'
    ' Round 9: `mqtt` kind (broker connection lost around a wake); `reconnect=with-exc` (the error itself leaves the async-with block).'
    ' Round 10: requests and reports for the parked key between parking and wake (enumerated).'
    ' Round 12: `ack` (parked commands carry the ack flag); the application sends an internal command of every type to the sleepers between the failed flush and the retry.'
    ' Round 11: every internal message of the sleeping nodes that is not their wake announcement (e.g. the post-sleep notification) among the `between` events.'
    ' Round 13: `@tick` (clock jumps between failed flush and retry).'
)
ASSUMPTIONS = [
    "faults are raised by the transport's write before anything is recorded (an all-or-nothing write)",
    "parked commands use distinct keys (overwrites are C07's subject)",
]
DELETABLE = ("parked", "wakes", "faults", "between")

KEYS = ((1, 0, 0), (1, 1, 0), (1, 0, 2), (2, 0, 0), (2, 1, 0))
REGISTRY = {
    "1": {"sleeping": True, "children": {"0": {"child_type": 3}, "1": {"child_type": 3}}},
    "2": {"sleeping": True, "children": {"0": {"child_type": 3}, "1": {"child_type": 3}}},
    "3": {"children": {"0": {"child_type": 3, "values": {"2": "1"}}}},
}
# what may arrive between a failed flush and the retry (anything but a wake of nodes 1/2): one event of every kind
BETWEEN = tuple(f"0;255;3;0;{t};x\n" for t in range(0, 34) if t != 2) + tuple(f"3;255;3;0;{t};1\n" for t in range(0, 34) if t != 2) + (
    "0;255;3;0;14;Gateway startup complete.\n", "0;255;3;0;2;2.2.0\n", "0;255;3;0;2;2.1.0\n", "0;255;3;0;2;2.0.0\n", "0;255;0;0;18;2.2.0\n",
    "3;0;1;0;2;0\n", "3;0;2;0;2;\n", "3;0;0;0;3;relay\n", "3;255;0;0;17;2.0\n", "1;0;1;0;2;1\n", "1;0;2;0;2;\n", "1;0;0;0;3;relay\n", "1;255;3;0;0;55\n",
    "1;255;3;0;11;sketch\n", "9;0;1;0;2;1\n", "1;7;1;0;2;1\n", "junk\n", "255;255;3;0;3;\n", "1;255;4;0;0;00\n",
    # the woken node reboots and presents itself again; another sleeping node does
    "1;255;0;0;17;2.0\n", "1;255;0;0;18;2.2.0\n", "2;255;0;0;17;2.0\n", "1;255;0;0;17;\n",
    # the woken node (and the other one) asks for / reports exactly the values that are parked for it
    "1;0;2;0;0;\n", "1;1;2;0;0;\n", "2;0;2;0;0;\n", "1;0;2;1;0;\n", "1;0;1;0;0;v0\n", "1;1;1;0;0;v1\n", "1;1;1;1;0;other\n", "2;0;1;0;0;v2\n",
    # what the application does after the failed flush: asks the node for the state it failed to switch, sends other commands,
    # saves and reloads the registry (node objects are replaced)
    "@send-req", "@send-req-ack", "@send-internal", "@reload", "@save",
) + tuple(f"@send-internal:{t}" for t in range(0, 34) if t != 18) + ("@tick:3601", "@tick:86400", "@tick:4000000") + (
    # every internal message of the sleeping nodes themselves that is not their wake announcement (22 under 2.0/2.1, 32 under 2.2)
) + tuple(f"{n};255;3;0;{t};{p}\n" for n in (1, 2) for t in range(0, 34) if t not in (2, 22, 32) for p in ("500",))


def budgets(tier: str) -> dict:
    if tier == "quick":
        return {"examples": 1500, "shards": 4, "enum_shards": 4}
    return {"examples": 20000, "shards": 16, "enum_shards": 16, "exhaustive_claim": True,
            "bounds": "5 keys, parked subsets of size 1-4, wake sequences of length 1-3 over 2 nodes, all fault subsets of attempts 0-5, versions 2.0/2.1/2.2"}


def strategy(tier: str):
    parked = st.lists(st.sampled_from(KEYS), min_size=1, max_size=4, unique=True).map(lambda ks: [[n, c, t, f"v{i}"] for i, (n, c, t) in enumerate(ks)])
    return st.fixed_dictionaries(
        {
            "version": st.sampled_from(("2.0", "2.1", "2.2")),
            "parked": parked,
            "wakes": st.lists(st.sampled_from((1, 1, 2)), min_size=1, max_size=4),
            "faults": st.lists(st.integers(0, 7), max_size=4, unique=True).map(sorted),
            "fault_class": st.sampled_from(("failed", "failed", "base", "read")),
            "reconnect": st.sampled_from((False, False, True, "with-exc")),
            "between": st.one_of(st.just([]), st.lists(st.sampled_from(BETWEEN), min_size=1, max_size=2)),
            "ack": st.sampled_from((False, False, True)),
            "wake_payloads": st.one_of(st.just(["5"]), st.lists(st.sampled_from(("0", "1", "5", "7", "100", "65535", "500", "3")), min_size=1, max_size=4)),
        }
    )


def enumerate_cases(tier: str):
    for version in ("2.0", "2.2"):
        for parked in (1, 2, 3):
            for drop in ("close", "shutdown"):
                yield {"kind": "stream", "version": version, "parked": parked, "drop": drop}
    for version in ("2.0", "2.2") if tier == "quick" else ("2.0", "2.1", "2.2"):
        for parked in (1, 2) if tier == "quick" else (1, 2, 3):
            for senders in ([[0, True]], [[1, True]], [[0, True], [0, True]], [[3, True]]):
                yield {"kind": "race", "config": {"version": version, "parked": parked, "other_parked": 0, "senders": senders, "faults": 1}}
    # the counter carried by the wake line grows, shrinks, repeats or restarts between the failed flush and the retry
    for version in ("2.0", "2.1", "2.2"):
        for payloads in (["100", "7"], ["7", "100"], ["5", "5"], ["100", "7", "8", "3"], ["0", "65535", "0"], ["500", "1"]):
            for faults in ([0], [1], [0, 2]):
                yield {"version": version, "parked": [[1, 0, 0, "v0"], [1, 1, 0, "v1"], [2, 0, 0, "v2"]], "wakes": [1, 1], "faults": faults, "fault_class": "failed", "wake_payloads": payloads}
    # MQTT: the broker connection is lost while a wake is already queued; the release meets a dead client; reconnect; wake again
    for version in ("2.0", "2.2"):
        for parked in (1, 2, 3):
            for order in ("wake-then-loss", "loss-then-wake"):
                yield {"kind": "mqtt", "version": version, "parked": parked, "order": order}
    # the link dies (ETIMEDOUT, EPIPE, reset...) while the k-th command of a flush is being written; reconnect, wake again
    import errno as _errno

    for version in ("2.0", "2.2"):
        for parked in (1, 2, 3):
            for die_at in range(parked):
                for exc in ("ETIMEDOUT", "EPIPE", "ECONNRESET", "EIO", "EHOSTUNREACH"):
                    yield {"kind": "memstream", "version": version, "parked": parked, "die_at": die_at, "exc": exc}
    # a failed flush, then one event of every kind, then the retry: what was not written is still owed
    for version in ("2.0", "2.2") if tier == "quick" else ("2.0", "2.1", "2.2"):
        for line in BETWEEN:
            for faults in ([0], [1]):
                for reconnect in (False, True, "with-exc"):
                    yield {"version": version, "parked": [[1, 0, 0, "v0"], [1, 1, 0, "v1"], [2, 0, 0, "v2"]], "wakes": [1], "faults": faults,
                           "fault_class": "failed", "reconnect": reconnect, "between": [line]}
    # the commands carry the ack flag (the application wants them echoed): the same law
    for version in ("2.0", "2.1", "2.2"):
        for faults in ([], [0], [1], [2], [0, 2], [1, 2], [0, 1, 3]):
            for wakes in ([1], [1, 1], [1, 2, 1]):
                yield {"version": version, "parked": [[1, 0, 0, "v0"], [1, 1, 0, "v1"], [1, 0, 2, "v2"], [2, 0, 0, "v3"]], "wakes": wakes, "faults": faults, "fault_class": "failed", "ack": True}
                yield {"version": version, "parked": [[1, 0, 0, "v0"], [1, 1, 0, "v1"]], "wakes": wakes, "faults": faults, "fault_class": "base", "ack": True, "between": ["1;0;1;0;0;v0\n"]}
    versions = ("2.0", "2.1", "2.2") if tier == "thorough" else ("2.1", "2.2")
    max_wakes = 3 if tier == "thorough" else 2
    max_attempt = 6 if tier == "thorough" else 3
    sizes = (1, 2, 3, 4) if tier == "thorough" else (2, 3)
    for version in versions:
        for size in sizes:
            for keys in itertools.combinations(KEYS, size):
                parked = [[n, c, t, f"v{i}"] for i, (n, c, t) in enumerate(keys)]
                for nw in range(1, max_wakes + 1):
                    for wakes in itertools.product((1, 2), repeat=nw):
                        for mask in range(1 << max_attempt):
                            faults = [i for i in range(max_attempt) if mask >> i & 1]
                            yield {"version": version, "parked": parked, "wakes": list(wakes), "faults": faults,
                                   "fault_class": ("failed", "base", "read")[(mask + size + nw) % 3]}


def _run_stream(case: dict) -> Outcome:
    """The same law on a real asyncio stream: the device sends its wake line and drops the link; after a reconnect and
    another wake the peer must have received every parked command exactly once."""
    import asyncio
    import socket

    from aiomysensors.gateway import Gateway
    from aiomysensors.transport import StreamTransport

    version = case["version"]
    wake = f"1;255;3;0;{32 if version == '2.2' else 22};5\n".encode()
    lines = [f"1;{c};1;0;{t};v{i}\n" for i, (c, t) in enumerate(((0, 0), (1, 0), (0, 2))[: case["parked"]])]

    class PairTransport(StreamTransport):
        def __init__(self) -> None:
            super().__init__()
            self.peers: list[socket.socket] = []

        async def _open_connection(self):
            ours, theirs = socket.socketpair(socket.AF_UNIX, socket.SOCK_STREAM)
            self.peers.append(theirs)
            return await asyncio.open_unix_connection(sock=ours)

    async def go() -> Outcome | None:
        transport = PairTransport()
        gateway = Gateway(transport)
        gateway.protocol_version = version
        env.install_registry(gateway.nodes, REGISTRY)
        await transport.connect()
        for i, (c, t) in enumerate(((0, 0), (1, 0), (0, 2))[: case["parked"]]):
            await gateway.send(env.mk_message([1, c, 1, 0, t, f"v{i}"]))
        first = transport.peers[0]
        first.sendall(wake)
        if case["drop"] == "close":
            first.close()
        else:
            first.shutdown(socket.SHUT_RDWR)
        agen = gateway.listen()
        try:
            await agen.__anext__()
            status = "ok"
        except Exception as err:  # noqa: BLE001
            status = type(err).__name__
        finally:
            await agen.aclose()
        await transport.disconnect()
        await transport.connect()
        second = transport.peers[1]
        peer_reader, peer_writer = await asyncio.open_unix_connection(sock=second)
        received = b""
        for _ in range(3):
            peer_writer.write(wake)
            await peer_writer.drain()
            agen = gateway.listen()
            try:
                await agen.__anext__()
            except Exception as err:  # noqa: BLE001
                return fail("stream:wake-after-reconnect-raised", f"after the reconnect the wake raised {err!r}")
            finally:
                await agen.aclose()
        await transport.disconnect()
        received = await peer_reader.read(-1)
        peer_writer.close()
        if case["drop"] != "close":
            first.close()
        got = received.decode().splitlines(keepends=True)
        for line in lines:
            if got.count(line) == 0:
                return fail("stream:command-lost", f"link dropped during the flush (first wake gave {status}); after reconnect and three wakes the device received {got!r}, never {line!r}")
            if got.count(line) > 1:
                return fail("stream:command-repeated", f"the device received {line!r} {got.count(line)} times: {got!r}")
        return None

    bad = env.run(go())
    classes = ("stream-kind", f"version={version}")
    if bad is not None:
        bad.classes = classes
        return bad
    return Outcome(ok=True, nontrivial=True, classes=classes)


def _run_race(case: dict) -> Outcome:
    """One failing write inside a flush that races with sends: all schedules (C09's scheduler); nothing may be lost."""
    from vf.props import c09

    bad, count, raced, _trunc = c09._explore(case["config"])
    classes = ("race-with-fault",)
    if bad is not None and not bad.ok:
        bad.sig = f"race:{bad.sig}"
        bad.classes = classes
        bad.extra_evals = count - 1
        return bad
    return Outcome(ok=True, nontrivial=True, classes=classes, extra_evals=count - 1)


async def _app_event(name: str, gateway, parked: list, info: dict) -> Outcome | None:
    """Something the application does between the failed flush and the retry; none of it may cost a parked set command."""
    if name in ("@send-req", "@send-req-ack"):
        for n, c, t, _v in parked:
            status, value = await env.send(gateway, env.mk_message([n, c, 2, 1 if name.endswith("ack") else 0, t, ""]))
            if status == "leak":
                return fail(f"leak:{env.exc_sig(value)}", f"send of a value request for ({n},{c},{t}) raised {value!r}")
    elif name.startswith("@tick"):
        # hours or days pass (on the process clock and the loop clock) before the node wakes again
        info["clock"].advance(float(name.split(":")[1]))
    elif name.startswith("@send-internal"):
        # an internal command of the application to the sleeping nodes (heartbeat request by default; any type after a colon)
        mtype = int(name.split(":")[1]) if ":" in name else 18
        for node in (1, 2):
            await env.send(gateway, env.mk_message([node, 255, 3, 0, mtype, ""]))
    else:
        import os
        import tempfile

        from aiomysensors.persistence import Persistence

        if "persistence" not in info:
            info["tmpdir"] = tempfile.mkdtemp(prefix="vfc08-", dir="/dev/shm" if os.path.isdir("/dev/shm") else None)
            info["persistence"] = Persistence(gateway.nodes, os.path.join(info["tmpdir"], "registry.json"))
        await info["persistence"].save()
        if name == "@reload":
            await info["persistence"].load()
    return None


def _run_memstream(case: dict) -> Outcome:
    """Real asyncio stream objects over an in-memory transport whose link dies with an OS error while the k-th parked command
    is being written; after a reconnect and more wakes the device must have every command exactly once."""
    import asyncio
    import errno

    from aiomysensors.gateway import Gateway
    from aiomysensors.transport import StreamTransport

    version = case["version"]
    wake = f"1;255;3;0;{32 if version == '2.2' else 22};5\n".encode()
    keys = ((0, 0), (1, 0), (0, 2))[: case["parked"]]
    lines = [f"1;{c};1;0;{t};v{i}\n" for i, (c, t) in enumerate(keys)]
    code = getattr(errno, case["exc"])
    exc = TimeoutError(code, os.strerror(code)) if case["exc"] == "ETIMEDOUT" else OSError(code, os.strerror(code))

    class DyingMem(env.MemTransport):
        def __init__(self) -> None:
            super().__init__()
            self.die_at: int | None = None
            self.count = 0

        def write(self, data) -> None:
            if self.die_at is not None and self.count == self.die_at and not self.closing:
                # the link is gone before these bytes leave: nothing of this write reaches the device
                self.closing = True
                self.protocol.connection_lost(exc)
                return
            self.count += 1
            super().write(data)

    class MemStream(StreamTransport):
        def __init__(self) -> None:
            super().__init__()
            self.mems: list = []

        async def _open_connection(self):
            loop = asyncio.get_running_loop()
            reader = asyncio.StreamReader(limit=65536, loop=loop)
            protocol = asyncio.StreamReaderProtocol(reader, loop=loop)
            mem = DyingMem()
            mem.protocol = protocol
            protocol.connection_made(mem)
            self.mems.append((reader, mem))
            return reader, asyncio.StreamWriter(mem, protocol, reader, loop)

    async def go() -> Outcome | None:
        transport = MemStream()
        gateway = Gateway(transport)
        gateway.protocol_version = version
        env.install_registry(gateway.nodes, REGISTRY)
        await transport.connect()
        for i, (c, t) in enumerate(keys):
            await gateway.send(env.mk_message([1, c, 1, 0, t, f"v{i}"]))
        reader, mem = transport.mems[0]
        if mem.data:
            return Outcome(ok=True, classes=("diverged-elsewhere",))
        mem.die_at = case["die_at"]
        reader.feed_data(wake)
        agen = gateway.listen()
        try:
            await agen.__anext__()
            first = "ok"
        except TransportError:
            first = "transport-error"
        except Exception as err:  # noqa: BLE001
            return fail(f"leak:{env.exc_sig(err)}", f"link died with {exc!r} during the flush: {err!r}")
        finally:
            await agen.aclose()
        if first == "ok":
            return fail("memstream:fault-not-reported", f"the link died with {exc!r} while command {case['die_at']} was being written, but listen returned normally")
        try:
            await transport.disconnect()
            await transport.connect()
        except Exception as err:  # noqa: BLE001
            return fail(f"memstream:reconnect-raises:{type(err).__name__}", f"{err!r}")
        reader2, mem2 = transport.mems[-1]
        for _ in range(3):
            reader2.feed_data(wake)
            agen = gateway.listen()
            try:
                await agen.__anext__()
            except Exception as err:  # noqa: BLE001
                return fail("memstream:wake-after-reconnect-raised", f"after the reconnect the wake raised {err!r}")
            finally:
                await agen.aclose()
        got = (bytes(mem.data) + bytes(mem2.data)).decode().splitlines(keepends=True)
        for line in lines:
            if got.count(line) == 0:
                return fail("memstream:command-lost", f"link died with {exc!r} at write {case['die_at']}; after reconnect and three wakes the device received {got!r}, never {line!r}")
            if got.count(line) > 1:
                return fail("memstream:command-repeated", f"the device received {line!r} {got.count(line)} times: {got!r}")
        await transport.disconnect()
        return None

    bad = env.run(go())
    classes = ("memstream-kind", f"version={version}", f"exc={case['exc']}")
    if bad is not None:
        if bad.ok:
            return bad
        bad.classes = classes
        return bad
    return Outcome(ok=True, nontrivial=True, classes=classes)


def _run_mqtt(case: dict) -> Outcome:
    """The same law on an MQTTClient whose broker connection is lost around a wake (aiomqtt's message iterator dies with MqttError)."""
    import asyncio

    from aiomysensors.exceptions import AIOMySensorsError
    from aiomysensors.gateway import Gateway
    from aiomysensors.transport.mqtt import MQTTClient

    from vf.props import c18
    from vf.vloop import Deadlock, run_virtual

    version = case["version"]
    wake_type = 32 if version == "2.2" else 22
    keys = ((0, 0), (1, 0), (0, 2))[: case["parked"]]

    async def go() -> Outcome | None:
        broker = c18.FakeBroker()
        c18._patch(broker)
        transport = MQTTClient("broker.invalid", 1883, "gw-out", "gw-in")
        gateway = Gateway(transport)
        gateway.protocol_version = version
        env.install_registry(gateway.nodes, REGISTRY)
        await transport.connect()
        for i, (c, t) in enumerate(keys):
            await gateway.send(env.mk_message([1, c, 1, 0, t, f"v{i}"]))
        if broker.published:
            return Outcome(ok=True, classes=("diverged-elsewhere",))

        async def listen_once():
            agen = gateway.listen()
            try:
                return "ok", await asyncio.wait_for(agen.__anext__(), 5.0)
            except asyncio.TimeoutError:
                return "nothing", None
            except AIOMySensorsError as err:
                return "liberr", err
            except Exception as err:  # noqa: BLE001
                return "leak", err
            finally:
                await agen.aclose()

        if case["order"] == "wake-then-loss":
            broker.deliver(f"gw-out/1/255/3/0/{wake_type}", b"5", 0)
            for _ in range(4):
                await asyncio.sleep(0)
            broker.break_connection()
        else:
            broker.break_connection()
            for _ in range(4):
                await asyncio.sleep(0)
        for _ in range(4):
            await asyncio.sleep(0)
        reported = False
        for _ in range(3):
            status, value = await listen_once()
            if status == "leak":
                return fail(f"leak:{env.exc_sig(value)}", f"broker connection lost around a wake: {value!r}")
            if status == "liberr":
                reported = True
            if status == "nothing":
                break
        during_loss = len(broker.published)
        if not reported:
            return fail("mqtt:loss-not-reported", "the broker connection was lost but no listen call reported it")
        try:
            await transport.disconnect()
            await transport.connect()
        except Exception as err:  # noqa: BLE001
            return fail(f"mqtt:reconnect-raises:{type(err).__name__}", f"{err!r}")
        for _ in range(3):
            broker.deliver(f"gw-out/1/255/3/0/{wake_type}", b"6", 0)
            status, value = await listen_once()
            if status not in ("ok",):
                return fail("mqtt:wake-after-reconnect-raised", f"after the reconnect the wake gave {status} {value!r}")
        lines = [f"gw-in/1/{c}/1/0/{t}" for c, t in keys]
        topics = [topic for topic, _p, _q, _r in broker.published]
        for topic in lines:
            if topics.count(topic) == 0:
                return fail("mqtt:command-lost", f"connection lost ({case['order']}); {during_loss} publishes reached the broker before the reconnect; after reconnect and three wakes the broker has {topics!r}, never {topic!r}")
            if topics.count(topic) > 1:
                return fail("mqtt:command-repeated", f"the broker received {topic!r} {topics.count(topic)} times: {topics!r}")
        await transport.disconnect()
        return None

    try:
        bad, _loop = run_virtual(go)
    except Deadlock:
        bad = fail("deadlock", "the event loop has nothing left to run")
    classes = ("mqtt-kind", f"version={version}", case["order"])
    if bad is not None:
        if bad.ok:
            return bad
        bad.classes = classes
        return bad
    return Outcome(ok=True, nontrivial=True, classes=classes)


def run_case(case: dict) -> Outcome:
    if case.get("kind") == "mqtt":
        return _run_mqtt(case)
    if case.get("kind") == "memstream":
        return _run_memstream(case)
    if case.get("kind") == "race":
        return _run_race(case)
    if case.get("kind") == "stream":
        return _run_stream(case)
    version = case["version"]
    wake_type = 32 if version == "2.2" else 22
    parked = case["parked"]
    ack = 1 if case.get("ack") else 0  # the application asks the nodes to echo its commands (ack flag set): nothing else changes
    lines = {f"{n};{c};1;{ack};{t};{v}\n": n for n, c, t, v in parked}
    info = {"nontrivial": False, "faults_hit": 0}

    async def go() -> Outcome | None:
        gateway, transport = env.make_gateway(version)
        env.install_registry(gateway.nodes, REGISTRY)
        for n, c, t, v in parked:
            status, value = await env.send(gateway, env.mk_message([n, c, 1, ack, t, v]))
            if status != "ok" or transport.attempts:
                return Outcome(ok=True, classes=("diverged-elsewhere",))  # parking itself is C07's subject
        transport.fail_attempts = set(case["faults"])
        from aiomysensors.exceptions import TransportError as _TE, TransportFailedError as _TF, TransportReadError as _TR

        transport.fail_exc = {"failed": _TF, "base": _TE, "read": lambda msg: _TR(OSError(msg))}[case.get("fault_class", "failed")]
        written: Counter = Counter()
        wakes = list(case["wakes"])
        generated = len(wakes)
        idx = 0
        quiet_rounds = 0
        while idx < len(wakes) or quiet_rounds < 2:
            if idx >= len(wakes):
                # drain phase: fault-free wakes of both nodes until a full round writes nothing
                transport.fail_attempts = set()
                wakes.extend((1, 2))
            node = wakes[idx]
            transport.step = idx
            pending = [l for l, owner in lines.items() if owner == node and written[l] == 0]
            before_attempts = len(transport.attempts)
            wake_now = 32 if gateway.protocol.VERSION == "2.2" else 22  # (a version report may have arrived in between)
            payloads = case.get("wake_payloads") or ["5"]
            status, value = await env.rx(gateway, f"{node};255;3;0;{wake_now};{payloads[idx % len(payloads)]}\n")  # (counters may grow, shrink or repeat)
            step_attempts = transport.attempts[before_attempts:]
            where = f"wake #{idx} of node {node} (faults at attempts {case['faults']})"
            if status == "leak":
                return fail(f"leak:{env.exc_sig(value)}", f"{where}: {value!r}")
            failed = [l for _s, l, f in step_attempts if f]
            if failed and case.get("reconnect"):
                # the application reacts to the transport error the way the README suggests: leave the context, enter it again -
                # either it caught the error inside the block, or ("with-exc") the error itself leaves the `async with` block
                if case["reconnect"] == "with-exc" and isinstance(value, BaseException):
                    await gateway.__aexit__(type(value), value, value.__traceback__)
                else:
                    await gateway.__aexit__(None, None, None)
                await gateway.__aenter__()
            if failed:
                info["faults_hit"] += 1
                if len(pending) >= 2:
                    info["nontrivial"] = True
                if status != "liberr" or not isinstance(value, TransportError):
                    return fail("fault-not-reported", f"{where}: write of {failed!r} failed but listen gave {status} {value!r}")
            elif status != "ok":
                return fail("wake-fails-without-fault", f"{where}: {value!r}")
            for _s, line, was_failed in step_attempts:
                if line not in lines and line.split(";")[2] != "1":
                    continue  # a value request / internal command the application sent meanwhile and the library held back (C12's subject)
                if line not in lines:
                    return fail("spurious-write", f"{where}: attempted {line!r}, never parked")
                if lines[line] != node:
                    return fail("released-at-wrong-wake", f"{where}: attempted {line!r} which belongs to node {lines[line]}")
                if written[line] >= 1:
                    return fail("command-repeated", f"{where}: {line!r} was already written and is {'attempted' if was_failed else 'written'} again")
                if not was_failed:
                    written[line] += 1
            if idx < generated:
                for line in case.get("between", ()):
                    before_attempts = len(transport.attempts)
                    if line.startswith("@"):
                        bad_event = await _app_event(line, gateway, parked, info)
                        if bad_event is not None:
                            return bad_event
                        status, value = "ok", None
                    else:
                        status, value = await env.rx(gateway, line)
                    if status == "leak":
                        return fail(f"leak:{env.exc_sig(value)}", f"{where}, then {line!r}: {value!r}")
                    for _s, wline, was_failed in transport.attempts[before_attempts:]:
                        if wline in lines:
                            if written[wline] >= 1:
                                return fail("command-repeated", f"{where}, then {line!r}: {wline!r} was already written and is attempted again")
                            return fail("released-without-wake", f"{where}, then {line!r} (not a wake): attempted {wline!r}")
            if idx >= generated:
                quiet_rounds = quiet_rounds + 1 if not step_attempts else 0
                if idx > generated + 40:
                    return fail("flush-never-settles", f"{where}: still writing after 40 drain wakes")
            idx += 1
        lost = [l for l in lines if written[l] == 0]
        if lost:
            return fail("command-lost", f"never written although both nodes woke fault-free afterwards: {lost!r} (faults at attempts {case['faults']}, wakes {case['wakes']})")
        return None

    try:
        with env.FakeClock() as clock:
            info["clock"] = clock
            bad = env.run(go())
    finally:
        info.pop("clock", None)
        if info.get("tmpdir"):
            import shutil

            shutil.rmtree(info["tmpdir"], ignore_errors=True)
    classes = (f"version={version}", f"parked={len(parked)}", f"faults-hit={min(info['faults_hit'], 4)}")
    if bad is not None:
        if bad.ok:
            return bad
        bad.classes = classes
        return bad
    return Outcome(ok=True, nontrivial=info["nontrivial"], classes=classes)
