"""C17 - serial/TCP transport delivers exactly the lines of the byte stream (DESIGN 4.17)."""

from __future__ import annotations

import asyncio
import os
import socket

from hypothesis import strategies as st

from aiomysensors.exceptions import AIOMySensorsError, TransportError
from aiomysensors.transport import StreamTransport
from aiomysensors.transport.serial import SerialTransport
from aiomysensors.transport.tcp import TCPTransport

from vf import env, gen
from vf.runner import Outcome, fail

ID = "C17"
LEVEL = "exploration"
DESIGN_REF = "4.17"
RULE = (
    "three case kinds. read: a byte stream assembled from line kinds (ASCII message lines, multi-byte UTF-8, empty line, invalid UTF-8, NUL, a "
    "line longer than the reader limit, a final fragment without newline) x a chunking (cut points incl. 1-byte chunks, cuts inside a "
    "multi-byte character and right before the newline) x an arrival schedule (reads issued before or after each chunk is fed) x EOF; the "
    "transport is a StreamTransport subclass whose connection is an in-memory asyncio.StreamReader. Oracle: a reference splitter on the whole "
    "byte string - read i returns line i decoded as UTF-8 with its terminator, an undecodable line raises a TransportError and the next line "
    "still arrives, the EOF fragment and an over-long line raise TransportError (comparison stops at the over-long line), never another "
    "exception type. write: sequences of ASCII/non-ASCII lines through a real StreamWriter on an AF_UNIX socketpair whose peer closes at a "
    "generated point; the peer receives exactly the concatenated UTF-8 bytes in call order, a write either succeeds or raises TransportError. "
    "faults: connect failing with ConnectionRefusedError/TimeoutError/gaierror/OSError/SerialException through the TCP and serial factories, "
    "use before connect, close/wait_closed raising OSError. Non-trivial = > 1 chunk with a cut inside a line, or an error line followed by a "
    "good line, or a fault case; distinct = distinct case JSON."
    ' Round 5: a `duplex` kind: several connections on one transport object, writes while a read waits (for data / for the rest of a line), disconnect variants, use after disconnect.'
    ' Round 6: lost-link cases reconnect on the same object and read from the new connection; duplex cases issue 2-3 concurrent writes under back-pressure (bytes must be the lines in call order).'
    ' Round 7: cases also run with the library at DEBUG; use after a failed connect must raise a transport error.'
    ' Round 8: `cancel_read k`; read-side EOF followed by a write on the open connection.'
    ' Round 13: `pty` kind (SerialTransport on a real pseudo terminal: control characters in both directions, the device unplugged before disconnect).'
    ' Round 12: a write that neither returns nor raises within 20 s of real time on a socket pair is reported (write-hangs); `connect_delay` (the connection takes virtual seconds to minutes to open).'
    ' Round 11: duplex sessions in which written lines come back on the incoming stream; `gap` (virtual minutes to days pass before the awaited line arrives).'
    ' Round 9: the in-memory transport keeps the written objects by reference; EAGAIN/EINTR/ENOSPC/... among link errors.'
    ' Round 10: the in-memory connection counts queued objects discarded by abort(); disconnect of a healthy connection may not discard written lines.'
)
ASSUMPTIONS = [
    "asyncio.StreamReader.readuntil semantics for over-long lines (data stays in the reader) are trusted; no recovery is demanded after them",
    "connect faults are injected at asyncio.open_connection / aiomysensors.transport.serial.open_serial_connection, the names the repository's tests patch",
    "the `pty` cases use a real pseudo terminal and the write-hang check a real socket pair: they are bounded by 20 s of real time per call, reached only when a call never returns",
]
DELETABLE = ("lines", "cuts", "writes")

GOOD_LINES = ("1;1;1;0;0;1\r", "\r", "x\r\r", "\r1;1", "\ufeff1;1;1;0;0;5", "\ufeff", "x\ufeffy", "1;1;1;0;0;20.5", "0;255;3;0;9;log message", "12;6;1;0;47;åäö ✓", "7;255;0;0;17;2.3.2", "日本語", "", " ", ";", "a" * 50)
BAD_BYTES = ("\xff\xfe", "\x80", "1;2;1;0;0;\xe9", "\xc3", "\xe2\x82", "\xf0\x9f", "abc\xffdef")


def budgets(tier: str) -> dict:
    if tier == "quick":
        return {"examples": 1500, "shards": 4}
    return {"examples": 60000, "shards": 16}


@st.composite
def _read_case(draw) -> dict:
    lines = []
    for _ in range(draw(st.integers(1, 7))):
        kind = draw(st.sampled_from(("good", "good", "good", "text", "bad", "bad", "nul", "long", "long2")))
        if kind == "good":
            lines.append(["text", draw(st.sampled_from(GOOD_LINES))])
        elif kind == "text":
            lines.append(["text", draw(st.text(st.characters(exclude_characters="\n", exclude_categories=("Cs",)), max_size=20))])
        elif kind == "bad":
            lines.append(["bytes", draw(st.one_of(st.sampled_from(BAD_BYTES), st.binary(min_size=1, max_size=6).map(lambda b: b.replace(b"\n", b"\xff").decode("latin-1"))))])
        elif kind == "nul":
            lines.append(["bytes", draw(st.sampled_from(("\x00", "1;2\x00;3", "\x00\x00")))])
        elif kind == "long2":
            lines.append(["long2", draw(st.sampled_from(("a", "\xe9", ";")))])
        else:
            lines.append(["long", draw(st.sampled_from(("a", "\xe9", ";")))])
    tail = draw(st.sampled_from(("", "", "1;2;3", "\xff", "x", "\xc3")))
    limit = draw(st.sampled_from((64, 128, 65536)))
    total = sum(len(x[1]) + 1 for x in lines) + len(tail) + 400
    cuts = draw(st.one_of(
        st.just([]),
        st.lists(st.integers(1, max(total, 2)), max_size=12),
        st.just(list(range(1, 60))),
    ))
    return {
        "kind": "read", "lines": lines, "tail": tail, "limit": limit, "cuts": sorted(set(cuts)),
        "transport": draw(st.sampled_from(("base", "tcp", "serial"))),
        "debug_log": draw(st.sampled_from((False, False, True))),
        "pre_read": draw(st.lists(st.booleans(), min_size=1, max_size=8)),
        "post_reads": draw(st.lists(st.integers(0, 3), min_size=1, max_size=8)),
    }


@st.composite
def _write_case(draw) -> dict:
    longish = st.sampled_from(("1;1;1;0;47;" + "é" * 60, "12;6;1;0;47;" + "温度" * 40 + " end", "x" * 70 + "é", "é" * 33, "0;255;3;0;9;" + "log " * 100 + "ü"))
    writes = draw(st.lists(st.one_of(st.sampled_from(GOOD_LINES), longish, st.text(st.characters(exclude_categories=("Cs",)), max_size=30)).map(lambda s: s + "\n"), min_size=1, max_size=8))
    return {"kind": "write", "writes": writes, "peer_closes_after": draw(st.one_of(st.none(), st.integers(0, 8))), "debug_log": draw(st.sampled_from((False, False, True)))}


LONG_WRITES = ("1;1;1;0;47;" + "a" * 90 + "\n", "12;6;1;0;47;" + "温度" * 40 + " end\n", "2;2;1;0;47;" + "é" * 70 + "\n", "3;255;3;0;9;" + "log " * 60 + "ü\n", "4;4;1;0;2;1\n")


@st.composite
def _duplex_case(draw) -> dict:
    sessions = []
    for _ in range(draw(st.integers(1, 3))):
        sessions.append({
            "lines": draw(st.lists(st.sampled_from(GOOD_LINES[7:12] + ("5;5;1;0;2;1", "x")), min_size=1, max_size=3)),
            "writes": draw(st.lists(st.sampled_from(("1;1;1;0;2;1\n", "12;6;1;0;47;åäö\n", "255;255;3;0;4;7\n", "5;5;1;0;2;1\n", "x\n")), min_size=0, max_size=3)),
            "pending": draw(st.sampled_from(("none", "empty", "partial", "partial"))),
            "end": draw(st.sampled_from(("disconnect", "disconnect", "disconnect-twice", "eof-then-disconnect"))),
            "concurrent": draw(st.one_of(st.just([]), st.lists(st.sampled_from(LONG_WRITES), min_size=2, max_size=3))),
            "cancel_read": draw(st.sampled_from((None, None, 0, 1, 2, 3))),
            "gap": draw(st.sampled_from((0, 0, 0, 5, 301, 100000))),
            "raw_lines": draw(st.sampled_from((False, False, True))),
            "connect_delay": draw(st.sampled_from((0, 0, 0, 5, 15, 600))),
        })
    return {"kind": "duplex", "transport": draw(st.sampled_from(("base", "tcp", "serial"))), "sessions": sessions}


def _duplex_enumerated():
    for transport in ("base", "tcp", "serial"):
        for pending in ("none", "empty", "partial"):
            for end in ("disconnect", "disconnect-twice", "eof-then-disconnect"):
                one = {"lines": ["1;1;1;0;0;20.5", "2;2;1;0;0;x"], "writes": ["1;1;1;0;2;1\n", "12;6;1;0;47;åäö\n"], "pending": pending, "end": end}
                two = {"lines": ["7;255;0;0;17;2.3.2"], "writes": ["255;255;3;0;4;7\n"], "pending": pending, "end": "disconnect"}
                yield {"kind": "duplex", "transport": transport, "sessions": [one]}
                yield {"kind": "duplex", "transport": transport, "sessions": [one, two, one]}
        for k in range(0, 5):
            for count in (1, 3):
                yield {"kind": "duplex", "transport": transport, "sessions": [{"lines": ["1;1;1;0;0;20.5", "2;2;1;0;0;x", "3;3;1;0;0;y"][:count], "writes": [], "pending": "none", "end": "eof-then-disconnect", "cancel_read": k}]}
        # what was written comes back on the incoming stream (the node echoes a command with the ack flag; a bus that echoes): a line like any other
        for pending in ("none", "empty", "partial"):
            echo = {"lines": ["1;1;1;0;2;1", "2;2;1;0;0;x", "1;1;1;0;2;1", "12;6;1;1;47;åäö"], "writes": ["1;1;1;0;2;1\n", "12;6;1;1;47;åäö\n"], "pending": pending, "end": "disconnect", "raw_lines": True}
            yield {"kind": "duplex", "transport": transport, "sessions": [echo]}
            yield {"kind": "duplex", "transport": transport, "sessions": [echo, echo]}
        # a connection that takes seconds to minutes (virtual) to open: it opens, nothing else
        for delay in (1, 9, 11, 31, 120, 3600):
            slow = {"lines": ["1;1;1;0;0;20.5"], "writes": ["1;1;1;0;2;1\n"], "pending": "none", "end": "disconnect", "connect_delay": delay}
            yield {"kind": "duplex", "transport": transport, "sessions": [slow]}
            yield {"kind": "duplex", "transport": transport, "sessions": [slow, slow]}
        # a quiet link: a read waits minutes, hours, days (virtual time) for the next line, or for the rest of one
        for gap in (1, 299, 301, 3600, 86400 * 3):
            for pending in ("empty", "partial"):
                quiet = {"lines": ["1;1;1;0;0;20.5", "2;2;1;0;0;x"], "writes": ["1;1;1;0;2;1\n"], "pending": pending, "end": "disconnect", "gap": gap}
                yield {"kind": "duplex", "transport": transport, "sessions": [quiet]}
                yield {"kind": "duplex", "transport": transport, "sessions": [quiet, quiet]}
        for burst in (list(LONG_WRITES[:2]), list(LONG_WRITES[:3]), [LONG_WRITES[1], LONG_WRITES[2], LONG_WRITES[3]], [LONG_WRITES[4], LONG_WRITES[0]]):
            yield {"kind": "duplex", "transport": transport, "sessions": [{"lines": ["1;1;1;0;0;20.5"], "writes": ["1;1;1;0;2;1\n"], "pending": "partial", "end": "disconnect", "concurrent": burst}]}


def _fault_cases():
    out = []
    for factory in ("tcp", "serial"):
        for exc in ("ConnectionRefusedError", "TimeoutError", "gaierror", "OSError", "SerialException", "FileNotFoundError", "PermissionError"):
            out.append({"kind": "fault", "factory": factory, "what": "connect", "exc": exc})
        for what in ("read-before-connect", "write-before-connect", "disconnect-before-connect", "close-raises", "wait-closed-raises", "factory-args"):
            out.append({"kind": "fault", "factory": factory, "what": what, "exc": "OSError"})
        for exc in ("EIO", "ETIMEDOUT", "EHOSTUNREACH", "ECONNRESET", "EPIPE", "SerialException", "clean-eof", "EAGAIN", "EINTR", "ENOSPC", "EBADF", "ECONNABORTED", "ENETDOWN", "ENOTCONN", "ESHUTDOWN"):
            out.append({"kind": "fault", "factory": factory, "what": "link-lost", "exc": exc})
            out.append({"kind": "fault", "factory": factory, "what": "link-lost", "exc": exc, "skip_disconnect": True})
    return out


def strategy(tier: str):
    return gen.weighted((6, _read_case()), (2, _write_case()), (1, st.sampled_from(_fault_cases())), (2, _duplex_case()))


def enumerate_cases(tier: str):
    yield from _fault_cases()
    yield from _duplex_enumerated()
    # a real pseudo terminal under SerialTransport: control characters the tty layer could interpret, both ways; unplugged at the end
    for end in ("disconnect", "hangup"):
        yield {"kind": "pty", "lines": list(PTY_LINES), "writes": list(PTY_LINES[:8]), "end": end}
        yield {"kind": "pty", "lines": [], "writes": [], "end": end}
        yield {"kind": "pty", "lines": ["1;1;1;0;0;1"], "writes": ["1;1;1;0;2;1"], "end": end}
    for case in _fault_cases():
        yield dict(case, debug_log=True)
    # every kind of line with the library logging at DEBUG (what the CLI does), on every transport class
    for transport in ("base", "tcp", "serial"):
        lines = [["text", t] for t in GOOD_LINES] + [["bytes", b] for b in BAD_BYTES] + [["bytes", "\x00"], ["long", "a"], ["text", "1;1;1;0;0;after"]]
        for tail in ("", "1;2;3", "\xff", "\xc3"):
            yield {"kind": "read", "lines": lines, "tail": tail, "limit": 128, "cuts": [], "transport": transport, "pre_read": [False], "post_reads": [3], "debug_log": True}
        yield {"kind": "write", "writes": [g + "\n" for g in GOOD_LINES] + ["12;6;1;0;47;" + "温度" * 40 + "\n"], "peer_closes_after": None, "debug_log": True}


class _Stub:
    def __init__(self) -> None:
        self.data = b""
        self.close_exc = None
        self.wait_exc = None

    def write(self, data: bytes) -> None:
        self.data += data

    async def drain(self) -> None:
        return None

    def close(self) -> None:
        if self.close_exc:
            raise self.close_exc

    async def wait_closed(self) -> None:
        if self.wait_exc:
            raise self.wait_exc


class MemTransport(StreamTransport):
    def __init__(self, limit: int) -> None:
        super().__init__()
        self.limit = limit
        self.mem = None
        self.mem_reader: asyncio.StreamReader | None = None

    async def _open_connection(self):
        self.mem_reader, writer, self.mem = env.mem_stream_pair(self.limit)
        return self.mem_reader, writer


def build_stream(case: dict) -> tuple[bytes, list[bytes]]:
    limit = case["limit"]
    parts = []
    for kind, text in case["lines"]:
        if kind == "text":
            parts.append(text.encode("utf-8") + b"\n")
        elif kind == "bytes":
            parts.append(text.encode("latin-1").replace(b"\n", b"\xff") + b"\n")
        elif kind == "long2":
            parts.append(text.encode("latin-1") * (2 * limit + 37) + b"\n")
        else:
            parts.append(text.encode("latin-1") * (limit + 5) + b"\n")
    return b"".join(parts) + case["tail"].encode("latin-1").replace(b"\n", b""), parts


def _lines_after_overlong(data: bytes, limit: int) -> list[str] | None:
    """The decodable complete lines that follow the first over-long line (None if there is no over-long line)."""
    pieces = data.split(b"\n")
    pieces.pop()
    for idx, piece in enumerate(pieces):
        if len(piece) > limit:
            rest = []
            for later in pieces[idx + 1 :]:
                try:
                    rest.append((later + b"\n").decode("utf-8"))
                except UnicodeDecodeError:
                    pass
            return rest
    return None


def _expected(data: bytes, limit: int) -> list[tuple[str, object]]:
    """Reference splitter: what successive reads must give."""
    out: list[tuple[str, object]] = []
    pieces = data.split(b"\n")
    tail = pieces.pop()
    for piece in pieces:
        if len(piece) > limit:
            out.append(("overlong", None))
            return out
        try:
            out.append(("line", (piece + b"\n").decode("utf-8")))
        except UnicodeDecodeError:
            out.append(("undecodable", None))
    if len(tail) > limit:
        out.append(("overlong", None))
        return out
    out.append(("eof", tail))
    return out


def _run_read(case: dict) -> Outcome:
    data, _parts = build_stream(case)
    limit = case["limit"]
    expected = _expected(data, limit)
    cuts = [c for c in case["cuts"] if 0 < c < len(data)]
    chunks = [data[a:b] for a, b in zip([0] + cuts, cuts + [len(data)])] if data else []
    results: list[tuple[str, object]] = []
    info = {"pending_across_feed": False}

    async def go() -> Outcome | None:
        import aiomysensors.transport.serial as serial_mod

        which = case.get("transport", "base")
        real_tcp, real_serial = asyncio.open_connection, serial_mod.open_serial_connection
        holder = {}

        async def fake_open(*args, **kwargs):
            holder["reader"], writer, holder["mem"] = env.mem_stream_pair(limit)
            return holder["reader"], writer

        if which == "base":
            transport = MemTransport(limit)
            await transport.connect()
            reader = transport.mem_reader
        else:
            # the concrete classes applications use, with their connection factory replaced by in-memory streams
            transport = TCPTransport("gateway.invalid", 5003) if which == "tcp" else SerialTransport("/dev/ttyNONE", 115200)
            asyncio.open_connection = fake_open
            serial_mod.open_serial_connection = fake_open
            try:
                await transport.connect()
            finally:
                asyncio.open_connection = real_tcp
                serial_mod.open_serial_connection = real_serial
            reader = holder["reader"]
        pending: asyncio.Task | None = None

        async def attempt() -> tuple[str, object]:
            try:
                return "ok", await transport.read()
            except AIOMySensorsError as err:
                return "liberr", err
            except Exception as err:  # noqa: BLE001
                return "leak", err

        def harvest() -> None:
            nonlocal pending
            if pending is not None and pending.done():
                results.append(pending.result())
                pending = None

        for idx, chunk in enumerate(chunks):
            if case["pre_read"][idx % len(case["pre_read"])] and pending is None and len(results) < len(expected):
                pending = asyncio.ensure_future(attempt())
                await asyncio.sleep(0)
                await asyncio.sleep(0)
                harvest()
            if pending is not None:
                info["pending_across_feed"] = True
            reader.feed_data(chunk)
            await asyncio.sleep(0)
            await asyncio.sleep(0)
            harvest()
            for _ in range(case["post_reads"][idx % len(case["post_reads"])]):
                if pending is None:
                    if len(results) >= len(expected):
                        break
                    pending = asyncio.ensure_future(attempt())
                await asyncio.sleep(0)
                await asyncio.sleep(0)
                harvest()
                if pending is not None:
                    break
        reader.feed_eof()
        after = _lines_after_overlong(data, limit)
        for _ in range(len(expected) + 3):
            if pending is None:
                if len(results) >= len(expected):
                    break
                pending = asyncio.ensure_future(attempt())
            for _ in range(4):
                await asyncio.sleep(0)
            harvest()
            if pending is not None:
                pending.cancel()
                return fail("read-hangs-after-eof", f"stream {data[:80]!r}: a read is still pending after EOF was fed")
        if after is not None and len(results) >= len(expected):
            # whether reads recover after an over-long line is not specified - but whatever they return must be a line
            # of the stream that follows it, in order: never a fragment, never something the stream does not contain
            cursor = 0
            for _ in range(len(after) + 4):
                status, obs = await attempt()
                if status == "leak":
                    return fail(f"read-leak:{env.exc_sig(obs)}", f"stream with an over-long line: a later read raised {obs!r}")
                if status != "ok":
                    continue
                while cursor < len(after) and after[cursor] != obs:
                    cursor += 1
                if cursor >= len(after):
                    return fail("read-returns-non-line-after-overlong", f"after the over-long line a read returned {obs[:60]!r}..., which is not one of the following lines of the stream {[a[:20] for a in after]!r}")
                cursor += 1
        return None

    bad = env.run(go())
    cut_inside_line = any(data[c - 1:c] != b"\n" for c in cuts)
    err_then_good = any(a[0] == "undecodable" and b[0] == "line" for a, b in zip(expected, expected[1:]))
    classes = (f"limit={limit}", f"chunks={min(len(chunks), 9)}") + tuple(sorted({f"exp:{k}" for k, _ in expected}))
    if bad is None:
        where = f"stream {data[:120]!r} cut at {cuts[:12]}"
        for idx, (want, got) in enumerate(zip(expected, results)):
            kind, value = want
            status, obs = got
            if status == "leak":
                bad = fail(f"read-leak:{env.exc_sig(obs)}", f"{where}: read {idx} raised {obs!r}")
                break
            if kind == "line":
                if status != "ok":
                    bad = fail("read-error-on-good-line", f"{where}: read {idx} raised {obs!r}, expected {value!r}")
                    break
                if obs != value:
                    bad = fail("read-wrong-line", f"{where}: read {idx} returned {obs!r}, expected {value!r}")
                    break
            else:
                if status == "ok":
                    bad = fail(f"read-no-error:{kind}", f"{where}: read {idx} returned {obs!r}, expected a TransportError ({kind})")
                    break
                if not isinstance(obs, TransportError):
                    bad = fail(f"read-wrong-error:{kind}", f"{where}: read {idx} raised {obs!r}, expected a TransportError")
                    break
        else:
            if len(results) < len(expected):
                bad = fail("read-missing", f"{where}: {len(results)} reads completed, {len(expected)} expected")
    if bad is not None:
        bad.classes = classes
        return bad
    nontrivial = (len(chunks) > 1 and cut_inside_line) or err_then_good
    return Outcome(ok=True, nontrivial=nontrivial, classes=classes)


def _run_write(case: dict) -> Outcome:
    writes = case["writes"]
    closes_after = case["peer_closes_after"]
    info = {"errors": 0}

    async def go() -> Outcome | None:
        left, right = socket.socketpair(socket.AF_UNIX, socket.SOCK_STREAM)

        class SockTransport(StreamTransport):
            async def _open_connection(self):
                return await asyncio.open_unix_connection(sock=left)

        transport = SockTransport()
        await transport.connect()
        peer_reader, peer_writer = await asyncio.open_unix_connection(sock=right)
        received = b""
        sent_ok: list[str] = []
        closed = False
        try:
            for idx, line in enumerate(writes):
                if closes_after is not None and idx == closes_after and not closed:
                    peer_writer.close()
                    closed = True
                    for _ in range(3):
                        await asyncio.sleep(0)
                known_dead = closed and transport.writer is not None and transport.writer.is_closing()
                try:
                    # (a few hundred bytes into a socket pair: 20 s of real time only ever run out when the call never returns)
                    await asyncio.wait_for(transport.write(line), 20)
                    sent_ok.append(line)
                    if known_dead:
                        return fail("write-silently-dropped", f"write {idx} {line!r} returned normally although the connection is already known to be lost (writer is closing)")
                except asyncio.TimeoutError:
                    return fail("write-hangs", f"write {idx} {line!r} neither returned nor raised (peer {'closed before write ' + str(closes_after) if closed else 'open'}; earlier writes: {info['errors']} errors)")
                except TransportError:
                    info["errors"] += 1
                    if not closed:
                        return fail("write-error-on-open-connection", f"write {idx} {line!r} raised TransportError although the peer is open")
                except Exception as err:  # noqa: BLE001
                    return fail(f"write-leak:{env.exc_sig(err)}", f"write {idx} {line!r} raised {err!r}")
            try:
                await transport.disconnect()
            except Exception as err:  # noqa: BLE001
                return fail(f"disconnect-raises:{type(err).__name__}", f"disconnect after writes raised {err!r}")
            if not closed:
                # the transport side is closed now: the peer reads until end of stream, no timeouts involved
                received = await peer_reader.read(-1)
                want = "".join(sent_ok).encode("utf-8")
                if received != want:
                    return fail("write-bytes-differ", f"writes {writes!r}: peer received {received[:200]!r}, expected {want[:200]!r}")
        finally:
            if not closed:
                peer_writer.close()
            left.close()
            right.close()
        return None

    bad = env.run(go())
    nonascii = any(ord(ch) > 127 for line in writes for ch in line)
    classes = ("write", f"n={len(writes)}", "peer-closes" if closes_after is not None else "peer-open", "non-ascii" if nonascii else "ascii")
    if bad is not None:
        bad.classes = classes
        return bad
    return Outcome(ok=True, nontrivial=nonascii or closes_after is not None or len(writes) > 1, classes=classes)


PTY_LINES = ("1;1;1;0;0;20.5", "a\x11b", "\x13", "x\x11\x13y", "\x03", "a\x04b", "\x7f", "\x1a", "a\rb", "\x00", "\x1b[A", "\x15", "\x16\x17", "åäö", "\x08", "\x0c", "\x1c")


def _run_pty(case: dict) -> Outcome:
    """SerialTransport on a real pseudo terminal (pyserial + serial_asyncio, no stubbed factory): what the other end writes is what
    read returns, byte for byte - the tty layer between them is configured by the library and must not eat or rewrite anything."""
    import errno as _errno

    classes = ("pty", f"end={case['end']}")

    async def go() -> Outcome | None:
        master, slave = os.openpty()
        os.set_blocking(master, False)
        transport = SerialTransport(os.ttyname(slave), 115200)
        try:
            try:
                await asyncio.wait_for(transport.connect(), 20)
            except Exception as err:  # noqa: BLE001
                return fail(f"pty:connect-raises:{type(err).__name__}", f"connect to a pseudo terminal raised {err!r}", classes=classes)
            for text in case["lines"]:
                data = (text + "\n").encode("utf-8")
                os.write(master, data)
                try:
                    got = await asyncio.wait_for(transport.read(), 20)
                except asyncio.TimeoutError:
                    return fail("pty:read-hangs", f"{data!r} was written to the other end of the terminal; read never returned", classes=classes)
                except Exception as err:  # noqa: BLE001
                    return fail(f"pty:read-raises:{type(err).__name__}", f"{data!r} was written to the other end; read raised {err!r}", classes=classes)
                if got != text + "\n":
                    return fail("pty:read-differs", f"the other end of the terminal wrote {data!r}; read returned {got!r}", classes=classes)
            for text in case["writes"]:
                want = (text + "\n").encode("utf-8")
                try:
                    await asyncio.wait_for(transport.write(text + "\n"), 20)
                except Exception as err:  # noqa: BLE001
                    return fail(f"pty:write-raises:{type(err).__name__}", f"write of {text!r} raised {err!r}", classes=classes)
                seen = b""
                for _ in range(2000):
                    try:
                        seen += os.read(master, 65536)
                    except BlockingIOError:
                        pass
                    if len(seen) >= len(want):
                        break
                    await asyncio.sleep(0.001)
                if seen != want:
                    return fail("pty:write-differs", f"write of {text!r}: the other end of the terminal received {seen!r}", classes=classes)
            if case["end"] == "hangup":
                os.close(master)  # the device is unplugged
                master = -1
            try:
                await asyncio.wait_for(transport.disconnect(), 20)
            except TransportError:
                pass
            except asyncio.TimeoutError:
                return fail("pty:disconnect-hangs", f"disconnect ({case['end']}) never returned", classes=classes)
            except BaseException as err:  # noqa: BLE001
                return fail(f"pty:disconnect-raises:{type(err).__name__}", f"disconnect ({case['end']}) raised {err!r}", classes=classes)
            return None
        finally:
            for fd in (master, slave):
                if fd >= 0:
                    try:
                        os.close(fd)
                    except OSError as err:
                        if err.errno != _errno.EBADF:
                            raise

    bad = env.run(go())
    if bad is not None:
        return bad
    return Outcome(ok=True, nontrivial=True, classes=classes)


def _run_duplex(case: dict) -> Outcome:
    """One transport object over several connections; writes are issued while a read is waiting for (the rest of) a line."""
    from vf.vloop import Deadlock, run_virtual

    info = {"pending_writes": 0}

    async def go() -> Outcome | None:
        import aiomysensors.transport.serial as serial_mod

        which = case.get("transport", "base")
        real_tcp, real_serial = asyncio.open_connection, serial_mod.open_serial_connection
        opened: list = []

        connect_delay = [0.0]

        async def fake_open(*args, **kwargs):
            if connect_delay[0]:
                await asyncio.sleep(connect_delay[0])  # a slow network / a device that takes its time to open (virtual seconds)
            reader, writer, mem = env.mem_stream_pair(65536)
            opened.append((reader, mem))
            return reader, writer

        if which == "base":
            class Base(StreamTransport):
                async def _open_connection(self):
                    return await fake_open()

            transport = Base()
        else:
            transport = TCPTransport("gateway.invalid", 5003) if which == "tcp" else SerialTransport("/dev/ttyNONE", 115200)
        asyncio.open_connection = fake_open
        serial_mod.open_serial_connection = fake_open
        try:
            for sidx, session in enumerate(case["sessions"]):
                where = f"session {sidx + 1} ({which})"
                before = len(opened)
                connect_delay[0] = float(session.get("connect_delay") or 0)
                try:
                    await transport.connect()
                except Exception as err:  # noqa: BLE001
                    return fail(f"duplex:connect-raises:{type(err).__name__}", f"{where}: connect raised {err!r}")
                if len(opened) != before + 1:
                    return fail("duplex:connect-opened-nothing", f"{where}: connect returned but opened {len(opened) - before} connections")
                reader, mem = opened[-1]
                lines = [text if session.get("raw_lines") else f"s{sidx};{text}" for text in session["lines"]]
                raw = [(line + "\n").encode("utf-8") for line in lines]
                pending = None
                fed_first = 0
                if session["pending"] != "none":
                    if session["pending"] == "partial":
                        fed_first = max(1, len(raw[0]) // 2)
                        reader.feed_data(raw[0][:fed_first])
                    pending = asyncio.ensure_future(transport.read())
                    for _ in range(3):
                        await asyncio.sleep(0)
                want_out = b""
                for widx, line in enumerate(session["writes"]):
                    if pending is not None and not pending.done():
                        info["pending_writes"] += 1
                    try:
                        await asyncio.wait_for(transport.write(line), 30)
                    except asyncio.TimeoutError:
                        return fail("duplex:write-blocked-by-pending-read", f"{where}: write {widx} {line!r} did not complete while a read was waiting for {'the rest of a line' if fed_first else 'data'}")
                    except Exception as err:  # noqa: BLE001
                        return fail(f"duplex:write-raises:{type(err).__name__}", f"{where}: write {widx} {line!r} raised {err!r}")
                    want_out += line.encode("utf-8")
                    if bytes(mem.data) != want_out:
                        return fail("duplex:write-bytes-differ", f"{where}: after write {widx} the connection holds {bytes(mem.data)[:120]!r}, expected {want_out[:120]!r}")
                burst = session.get("concurrent") or []
                if burst:
                    # several tasks write at once while the connection exerts back-pressure (drain() really waits)
                    mem.protocol.pause_writing()
                    tasks = [asyncio.ensure_future(transport.write(line)) for line in burst]
                    for _ in range(4):
                        await asyncio.sleep(0)
                    mem.protocol.resume_writing()
                    for round_ in range(40):
                        if all(t.done() for t in tasks):
                            break
                        mem.protocol.pause_writing()
                        await asyncio.sleep(0)
                        mem.protocol.resume_writing()
                        await asyncio.sleep(0)
                    try:
                        await asyncio.wait_for(asyncio.gather(*tasks), 30)
                    except asyncio.TimeoutError:
                        return fail("duplex:concurrent-writes-hang", f"{where}: concurrent writes never finish")
                    except Exception as err:  # noqa: BLE001
                        return fail(f"duplex:write-raises:{type(err).__name__}", f"{where}: concurrent write raised {err!r}")
                    want_out += "".join(burst).encode("utf-8")
                    info["concurrent"] = info.get("concurrent", 0) + 1
                    if bytes(mem.data) != want_out:
                        return fail("duplex:concurrent-writes-interleaved", f"{where}: {len(burst)} tasks wrote one line each (call order); the connection received {bytes(mem.data)[-300:]!r}")
                if session.get("gap"):
                    await asyncio.sleep(float(session["gap"]))  # a quiet link: nothing arrives for that long (virtual time) while a read may be waiting
                reader.feed_data(raw[0][fed_first:] + b"".join(raw[1:]))
                got = []
                cancel_after = session.get("cancel_read")
                if cancel_after is not None and pending is None:
                    # a read is cancelled (timeout, shutdown) k loop steps after its line arrived: the line is returned by that read or by the next one
                    attempt = asyncio.ensure_future(transport.read())
                    for _ in range(int(cancel_after)):
                        await asyncio.sleep(0)
                    if not attempt.done():
                        attempt.cancel()
                    try:
                        got.append(await attempt)
                    except asyncio.CancelledError:
                        info["cancelled_reads"] = info.get("cancelled_reads", 0) + 1
                    except Exception as err:  # noqa: BLE001
                        return fail(f"duplex:read-raises:{type(err).__name__}", f"{where}: a read cancelled after {cancel_after} steps raised {err!r}")
                try:
                    if pending is not None:
                        got.append(await asyncio.wait_for(pending, 30))
                    while len(got) < len(lines):
                        got.append(await asyncio.wait_for(transport.read(), 30))
                except asyncio.TimeoutError:
                    return fail("duplex:read-hangs", f"{where}: lines {lines!r} arrived, reads returned {got!r} and then blocked")
                except Exception as err:  # noqa: BLE001
                    return fail(f"duplex:read-raises:{type(err).__name__}", f"{where}: reads returned {got!r}, then {err!r}; the stream holds {lines!r}")
                if [g.rstrip("\n") for g in got] != lines or any(not g.endswith("\n") for g in got):
                    return fail("duplex:read-wrong-lines", f"{where}: read {got!r}, this connection carried {lines!r}")
                if session["end"] == "eof-then-disconnect":
                    # the peer half-closes: the incoming stream ends (a read says so), the outgoing direction still works
                    reader.feed_eof()
                    await asyncio.sleep(0)
                    try:
                        await asyncio.wait_for(transport.read(), 30)
                        return fail("duplex:read-after-eof-no-error", f"{where}: the stream has ended but read returned")
                    except TransportError:
                        pass
                    except Exception as err:  # noqa: BLE001
                        return fail(f"duplex:read-after-eof-leak:{type(err).__name__}", f"{where}: read at end of stream raised {err!r}")
                    try:
                        await asyncio.wait_for(transport.write("9;9;1;0;2;after-eof\n"), 30)
                    except Exception as err:  # noqa: BLE001
                        return fail(f"duplex:write-after-read-eof:{type(err).__name__}", f"{where}: the incoming stream ended (no fault on the outgoing side, connection open), write raised {err!r}")
                    want_out += b"9;9;1;0;2;after-eof\n"
                    if bytes(mem.data) != want_out:
                        return fail("duplex:write-bytes-differ", f"{where}: after the incoming stream ended the connection holds {bytes(mem.data)[-80:]!r}")
                try:
                    await transport.disconnect()
                    if session["end"] == "disconnect-twice":
                        await transport.disconnect()
                except Exception as err:  # noqa: BLE001
                    return fail(f"duplex:disconnect-raises:{type(err).__name__}", f"{where}: {err!r}")
                if mem.closed_count < 1:
                    return fail("duplex:connection-not-closed", f"{where}: disconnect returned but the connection was never closed")
                if mem.discarded and mem.lost_exc is None and mem.close_exc is None:
                    # the peer was slow: the written lines were still queued in the connection (writes returned normally, nothing failed)
                    return fail("duplex:queued-output-discarded-by-disconnect", f"{where}: {mem.discarded} written chunks were still queued in the healthy connection; disconnect aborted it instead of closing it, so they never reach the stream")
                # a disconnected transport is not connected: using it raises a transport error
                for name, call in (("read", transport.read), ("write", lambda: transport.write("1;1;1;0;2;1\n"))):
                    try:
                        await asyncio.wait_for(call(), 30)
                    except TransportError:
                        continue
                    except asyncio.TimeoutError:
                        return fail(f"duplex:{name}-after-disconnect-hangs", f"{where}: {name} after disconnect blocks")
                    except Exception as err:  # noqa: BLE001
                        return fail(f"duplex:{name}-after-disconnect-leak:{type(err).__name__}", f"{where}: {name} after disconnect raised {err!r}")
                    if name == "write" and bytes(mem.data) != want_out:
                        return fail("duplex:write-after-disconnect-sent", f"{where}: a write after disconnect reached the closed connection")
        finally:
            asyncio.open_connection = real_tcp
            serial_mod.open_serial_connection = real_serial
        return None

    try:
        bad, _loop = run_virtual(go)
    except Deadlock:
        bad = fail("duplex:deadlock", "the event loop has nothing left to run (a read, write or disconnect blocks forever)")
    classes = ("duplex", f"sessions={len(case['sessions'])}", f"transport={case.get('transport', 'base')}") + (("write-while-read-pending",) if info["pending_writes"] else ())
    if bad is not None:
        bad.classes = classes
        return bad
    return Outcome(ok=True, nontrivial=len(case["sessions"]) > 1 or info["pending_writes"] > 0, classes=classes)


def _link_exc(name: str) -> BaseException | None:
    import errno

    if name == "clean-eof":
        return None
    if name == "SerialException":
        import serial

        return serial.SerialException("device reports readiness to read but returned no data (device disconnected?)")
    code = getattr(errno, name)
    return OSError(code, os.strerror(code))  # (OSError picks the matching subclass: ConnectionResetError, BlockingIOError, TimeoutError...)


def _make_exc(name: str) -> BaseException:
    if name == "gaierror":
        return socket.gaierror(-2, "Name or service not known")
    if name == "SerialException":
        import serial

        return serial.SerialException("could not open port")
    return {"ConnectionRefusedError": ConnectionRefusedError, "TimeoutError": TimeoutError, "OSError": OSError,
            "FileNotFoundError": FileNotFoundError, "PermissionError": PermissionError}[name]("injected")


def _run_fault(case: dict) -> Outcome:
    factory, what = case["factory"], case["what"]
    classes = ("fault", f"factory={factory}", f"what={what}")
    import aiomysensors.transport.serial as serial_mod

    async def go() -> Outcome | None:
        transport = TCPTransport("gateway.invalid", 5003) if factory == "tcp" else SerialTransport("/dev/ttyNONE", 115200)
        calls = {}

        async def fake_open(*args, **kwargs):
            calls["args"], calls["kwargs"] = args, kwargs
            if what == "connect":
                raise _make_exc(case["exc"])
            # real asyncio stream objects on an in-memory transport, so that a lost link behaves as in production
            reader, writer, mem = env.mem_stream_pair()
            calls["protocol"], calls["mem"] = mem.protocol, mem
            return reader, writer

        real_tcp, real_serial = asyncio.open_connection, serial_mod.open_serial_connection
        asyncio.open_connection = fake_open
        serial_mod.open_serial_connection = fake_open
        try:
            if what in ("read-before-connect", "write-before-connect", "disconnect-before-connect"):
                try:
                    if what == "read-before-connect":
                        await transport.read()
                    elif what == "write-before-connect":
                        await transport.write("1;1;1;0;0;1\n")
                    else:
                        await transport.disconnect()
                        return None
                except TransportError:
                    return None
                except Exception as err:  # noqa: BLE001
                    return fail(f"unconnected-use-leak:{type(err).__name__}", f"{what}: {err!r}")
                return fail("unconnected-use-no-error", f"{what} returned normally")
            try:
                await transport.connect()
            except TransportError:
                if what != "connect":
                    return fail("connect-fails", f"{what}: connect raised TransportError")
                # the attempt failed: the transport is (still) not connected, and using it says so with a transport error
                for label, action in (("read", transport.read), ("write", lambda: transport.write("1;1;1;0;0;1\n")), ("disconnect", transport.disconnect)):
                    try:
                        await action()
                    except TransportError:
                        continue
                    except Exception as err:  # noqa: BLE001
                        return fail(f"after-failed-connect:{label}-leak:{type(err).__name__}", f"connect failed with {case['exc']}; {label} on the unconnected transport raised {err!r}")
                    if label != "disconnect":
                        return fail(f"after-failed-connect:{label}-no-error", f"connect failed with {case['exc']}; {label} on the unconnected transport returned normally")
                return None
            except Exception as err:  # noqa: BLE001
                return fail(f"connect-leak:{type(err).__name__}", f"connect with {case['exc']} raised {err!r}")
            if what == "connect":
                return fail("connect-no-error", f"connection attempt failed with {case['exc']} but connect returned")
            if what == "factory-args":
                want = {"host": "gateway.invalid", "port": 5003} if factory == "tcp" else {"url": "/dev/ttyNONE", "baudrate": 115200}
                got = dict(calls.get("kwargs", {}))
                if factory == "tcp" and calls.get("args"):
                    got.update(dict(zip(("host", "port"), calls["args"])))
                if factory == "serial" and calls.get("args"):
                    got.update({"url": calls["args"][0]} if calls["args"] else {})
                if any(got.get(k) != v for k, v in want.items()):
                    return fail("factory-args", f"{factory} connection opened with {calls!r}, want {want!r}")
                await transport.write("1;1;1;0;0;é\n")
                if bytes(calls["mem"].data) != "1;1;1;0;0;é\n".encode("utf-8"):
                    return fail("write-bytes-differ", f"writer received {bytes(calls['mem'].data)!r}")
                return None
            if what == "link-lost":
                await transport.write("1;1;1;0;0;1\n")
                if bytes(calls["mem"].data) != b"1;1;1;0;0;1\n":
                    return fail("write-bytes-differ", f"transport received {bytes(calls['mem'].data)!r}")
                exc = _link_exc(case["exc"])
                calls["mem"].closing = True
                calls["protocol"].connection_lost(exc)
                await asyncio.sleep(0)
                for label, action in (("read", transport.read()), ("write", transport.write("1;1;1;0;0;2\n"))):
                    try:
                        await action
                    except TransportError:
                        continue
                    except Exception as err:  # noqa: BLE001
                        return fail(f"link-lost:{label}-leak:{type(err).__name__}", f"after the link was lost with {exc!r}, {label} raised {err!r}")
                    return fail(f"link-lost:{label}-no-error", f"after the link was lost with {exc!r}, {label} returned normally")
                if not case.get("skip_disconnect"):
                    try:
                        await transport.disconnect()
                    except Exception as err:  # noqa: BLE001
                        return fail(f"disconnect-raises:{type(err).__name__}", f"link lost with {exc!r}: disconnect raised {err!r}")
                # the application reconnects on the same transport object; the new endpoint is healthy
                first_mem = calls["mem"]
                try:
                    await transport.connect()
                except TransportError:
                    return None  # (a transport that refuses to reconnect says so with a transport error)
                except Exception as err:  # noqa: BLE001
                    return fail(f"link-lost:reconnect-leak:{type(err).__name__}", f"link lost with {exc!r}, then connect() on the same transport raised {err!r}")
                if calls["mem"] is not first_mem:
                    calls["protocol"].data_received(b"9;9;1;0;0;after\n")
                    try:
                        got = await transport.read()
                    except Exception as err:  # noqa: BLE001
                        return fail(f"link-lost:read-after-reconnect:{type(err).__name__}", f"link lost with {exc!r}; after reconnecting, read raised {err!r}")
                    if got != "9;9;1;0;0;after\n":
                        return fail("link-lost:read-after-reconnect-wrong", f"after reconnecting read returned {got!r}")
                try:
                    await transport.disconnect()
                except Exception as err:  # noqa: BLE001
                    return fail(f"disconnect-raises:{type(err).__name__}", f"after the reconnect: disconnect raised {err!r}")
                return None
            if what == "close-raises":
                calls["mem"].close_exc = OSError("close failed")
            else:
                calls["mem"].lost_exc = ConnectionResetError("reset")  # surfaces from wait_closed()
            try:
                await transport.disconnect()
            except Exception as err:  # noqa: BLE001
                return fail(f"disconnect-raises:{type(err).__name__}", f"{what}: disconnect raised {err!r}")
            return None
        finally:
            asyncio.open_connection = real_tcp
            serial_mod.open_serial_connection = real_serial

    bad = env.run(go())
    if bad is not None:
        bad.classes = classes
        return bad
    return Outcome(ok=True, nontrivial=True, classes=classes)


def run_case(case: dict) -> Outcome:
    if not case.get("debug_log"):
        return _run_case(case)
    with env.debug_logging(True):  # the library logging at DEBUG, as under the bundled CLI
        out = _run_case(case)
    out.classes = tuple(out.classes or ()) + ("debug-log",)
    return out


def _run_case(case: dict) -> Outcome:
    if case["kind"] == "duplex":
        return _run_duplex(case)
    if case["kind"] == "pty":
        return _run_pty(case)
    if case["kind"] == "read":
        return _run_read(case)
    if case["kind"] == "write":
        return _run_write(case)
    return _run_fault(case)
