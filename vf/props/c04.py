"""C04 - the registry is a faithful record of what was presented and reported (DESIGN 4.4)."""

from __future__ import annotations

import itertools

from hypothesis import strategies as st

from vf import drive, env, gen
from vf.codec_ref import VERSIONS, plain_int
from vf.runner import Outcome, fail

ID = "C04"
LEVEL = "exploration"
DESIGN_REF = "4.4"
RULE = (
    "cases = protocol version x generated initial registry x history (<=25 received lines) over a deliberately small alphabet "
    "(nodes 0,1,2,3,254; children 0,1,2,254; three presentation types, three value types, few payloads) mixing node (re)presentations, "
    "child presentations, set, req, battery, sketch name/version, heartbeat response, pre-sleep, id requests, unsupported types and "
    "malformed lines; driven one line per listen() and, as a second mode, as one queue consumed by a single listen() loop. Oracle: the "
    "reference controller - outcome class, error attribute (node id / child id), yielded fields, and a deep registry snapshot after every "
    "step; queue mode must yield the same messages, errors, registry and writes as line-by-line mode. Enumerated part: all histories up to "
    "length 3 (quick) / 4 (thorough) over a 14-line alphabet x 5 versions. Non-trivial = a re-presentation after children/values existed, or a "
    "replaced child, or an error step whose node id differs from its child id, or >= 2 nodes interleaved; distinct = distinct case JSON."
    ' Round 6: all 256 node ids enumerated; read errors and clock ticks among the events.'
    ' Round 7: every internal/stream type x payload 0/1/none followed by a new node appearing (no hidden switches).'
    ' Round 8: `flag` ops (the application sets Node.reboot); `tasks` (every message handled in a task of its own).'
    ' Round 10: the consumer edits the yielded message after each step; every line of the alphabet is repeated later in the history.'
    ' Round 11: environment sweep (see C03), judged on outcome and registry.'
    ' Round 12: hidden-switch sweep; all 256 ids present themselves in one history; pass under `python -O`; eager task factory.'
    " Round 13: `rx_after_idle` in the tour (the consumer's wait times out on a quiet network, then the line arrives while a new listener waits)."
)
ASSUMPTIONS = [
    "battery payloads in the definite class (plain decimal, no .5 tie, 0-100); other spellings are accepted either way",
    "type and version text of an id-request placeholder are not specified and are adopted from the implementation",
    "gateway.protocol_version = v (public setter, as the repository's fixtures do) pins the version",
]
DELETABLE = ("ops",)

NODES = (0, 1, 2, 3, 254)
CHILDREN = (0, 1, 2, 254)
ASPECTS = frozenset({"outcome", "registry"})  # application sends appear in histories only to vary the controller's state


def budgets(tier: str) -> dict:
    if tier == "quick":
        return {"examples": 2400, "shards": 4, "enum_shards": 4}
    return {"examples": 80000, "shards": 16, "enum_shards": 16}


def _line_strategy():
    node = st.sampled_from(NODES)
    child = st.sampled_from(CHILDREN)
    vtype = st.sampled_from((0, 2, 49))
    ptype = st.sampled_from((0, 6, 38))
    payload = gen.short_payloads
    battery = st.sampled_from(("0", "55", "100", "99.4", "12.6", "7"))
    beats = st.sampled_from(("0", "1111", "42"))
    version = st.sampled_from(("1.4", "2.0.0", "2.2", "2.1.1", "1.5.1"))
    return st.one_of(
        st.builds(lambda n, t, v: f"{n};255;0;0;{t};{v}\n", st.sampled_from((1, 2, 3, 254, 1, 2, 0)), st.sampled_from((17, 18)), version),
        st.builds(lambda n, c, t, p: f"{n};{c};0;0;{t};{p}\n", node, child, ptype, payload),
        st.builds(lambda n, c, t, p: f"{n};{c};0;0;{t};{p}\n", node, child, ptype, payload),
        st.builds(lambda n, c, t, p: f"{n};{c};1;0;{t};{p}\n", node, child, vtype, payload),
        st.builds(lambda n, c, t, p: f"{n};{c};1;0;{t};{p}\n", node, child, vtype, payload),
        st.builds(lambda n, c, t, p: f"{n};{c};1;0;{t};{p}\n", node, child, vtype, payload),
        st.builds(lambda n, c, t: f"{n};{c};2;0;{t};\n", node, child, vtype),
        st.builds(lambda n, b: f"{n};255;3;0;0;{b}\n", node, battery),
        st.builds(lambda n, p: f"{n};255;3;0;11;{p}\n", node, payload),
        st.builds(lambda n, p: f"{n};255;3;0;12;{p}\n", node, payload),
        st.builds(lambda n, b: f"{n};255;3;0;22;{b}\n", node, beats),
        st.builds(lambda n: f"{n};255;3;0;32;\n", node),
        st.builds(lambda n: f"{n};255;3;0;21;\n", node),
        st.just("255;255;3;0;3;\n"),
        st.builds(lambda n, t: f"{n};255;3;0;{t};x\n", node, st.sampled_from((40, -1, 18, 29, 9, 15))),
        st.builds(lambda n, t: f"{n};255;4;0;{t};x\n", node, st.sampled_from((0, 5, 6))),
        st.sampled_from(("1;2\n", "256;0;1;0;0;1\n", "1;255;1;0;0;1\n", "", "1;0;3;0;0;5\n")),
    )


@st.composite
def _registry(draw) -> dict:
    reg: dict = {}
    for node in draw(st.lists(st.sampled_from(NODES), max_size=3, unique=True)):
        children = {}
        for child in draw(st.lists(st.sampled_from(CHILDREN), max_size=2, unique=True)):
            values = draw(st.dictionaries(st.sampled_from(("0", "2")), gen.short_payloads, max_size=2))
            children[str(child)] = {"child_id": child, "child_type": draw(st.sampled_from((0, 6))), "description": draw(st.sampled_from(("", "d"))), "values": values}
        reg[str(node)] = {
            "node_id": node,
            "node_type": 17,
            "protocol_version": "2.0",
            "sketch_name": draw(st.sampled_from(("", "s"))),
            "sketch_version": "",
            "battery_level": draw(st.sampled_from((0, 80))),
            "heartbeat": 0,
            "sleeping": draw(st.booleans()),
            "children": children,
        }
    return reg


def strategy(tier: str):
    send = st.builds(lambda n, c, t, v: ["send", [n, c, 1, 0, t, v], None], st.sampled_from(NODES), st.sampled_from(CHILDREN), st.sampled_from((0, 2, 49)), gen.short_payloads)
    events = st.sampled_from((["save"], ["save"], ["reload"], ["session"], ["read_error", "read"], ["read_error", "failed"], ["tick", 3600],
                              ["flag", 1, "reboot", True], ["flag", 2, "reboot", True], ["flag", 3, "reboot", True], ["flag", 1, "reboot", False]))  # the registry is saved / reloaded / the context re-entered meanwhile
    ops = st.lists(gen.weighted((16, gen.with_ack(_line_strategy()).map(lambda line: ["rx", line])), (2, send), (1, events)), min_size=5, max_size=25)
    return st.fixed_dictionaries(
        {
            "version": gen.versions_any,
            "registry": _registry(),
            "ops": ops,
            "mode": st.sampled_from(("steps", "steps", "queue")),
            "listen_mode": st.sampled_from(("fresh", "persistent")),
            "ctx": st.sampled_from(("same", "same", "same", "copied", "thread")),
            "tasks": st.sampled_from((False, False, True)),
            "debug_log": st.sampled_from((False, False, True)),
        }
    )


ENUM_ALPHABET = (
    "1;1;1;1;0;9\n",
    "1;255;0;0;17;2.0\n",
    "2;255;0;0;18;1.4\n",
    "1;1;0;0;6;d\n",
    "1;2;0;0;0;\n",
    "1;1;0;0;38;e\n",
    "2;1;0;0;6;\n",
    "1;1;1;0;0;7\n",
    "1;1;1;0;0;x;y\n",
    "1;2;1;0;2;1\n",
    "2;1;1;0;0;3\n",
    "1;255;3;0;0;55\n",
    "1;255;3;0;11;sk\n",
    "1;255;3;0;22;9\n",
    "255;255;3;0;3;\n",
)


def opt_cases(tier: str):
    """Cases also executed by an interpreter started with -O (see vf/optpass.py)."""
    return drive.opt_sweep_cases(tier)


def enumerate_cases(tier: str):
    # one event of every kind under every environment dimension (transport kind, logging, warnings, a bystander gateway, registry file, ...)
    yield from drive.all_sweep_cases()
    depth = 3 if tier == "quick" else 4
    versions = VERSIONS if tier == "thorough" else ("1.5", "2.1")
    for version in versions:
        for length in range(1, depth + 1):
            for combo in itertools.product(ENUM_ALPHABET, repeat=length):
                yield {"version": version, "registry": {}, "ops": [["rx", line] for line in combo], "mode": "steps"}
    # every internal / stream type with the payloads 0, 1 and none (from the gateway, from a known node), then a new node appears:
    # no message is a hidden switch for how the registry is kept
    for version in ("1.4", "2.2") if tier == "quick" else VERSIONS:
        for mtype in [t for t in range(0, 35) if t not in (2, 3, 4)]:
            for text in ("0", "1", ""):
                lines = ["4;255;0;0;17;2.0\n", f"0;255;3;0;{mtype};{text}\n", f"4;255;3;1;{mtype};{text}\n", f"4;255;4;0;{mtype % 6};{text}\n",
                         "20;255;0;0;17;2.1.0\n", "20;1;0;0;6;c\n", "20;1;1;0;0;5\n", "20;255;3;0;0;77\n", "4;255;0;0;18;2.2.0\n", "4;2;0;0;3;r\n"]
                yield {"version": version, "registry": {}, "ops": [["rx", line] for line in lines], "mode": "steps", "listen_mode": "persistent" if mtype % 2 else "fresh"}
    # the same lines arrive again and again while the consumer edits what it was handed (to build replies): each arrival is recorded as it is spelled
    for version in ("1.4", "2.2"):
        lines = ["4;255;0;0;17;2.0\n", "4;1;0;0;6;t\n", "4;1;1;0;2;1\n", "4;1;1;0;2;0\n", "4;1;1;0;2;1\n", "4;255;3;0;11;name\n", "4;255;3;0;11;other\n", "4;255;3;0;11;name\n",
                 "4;1;0;0;6;t\n", "4;1;1;0;2;1\n", "4;255;3;0;0;55\n", "4;255;3;0;0;56\n", "4;255;3;0;0;55\n", "4;255;0;0;17;2.0\n", "4;1;0;0;6;t\n", "4;1;1;0;2;1\n"]
        for mode in ("fresh", "persistent"):
            yield {"version": version, "registry": {}, "ops": [["rx", l] for l in lines], "mode": "steps", "listen_mode": mode}
    # the application flags a node for reboot: what the node reports next is recorded like anything else
    for version in (None, "1.4", "2.0", "2.2"):
        lines = ["4;255;0;0;17;2.0\n", "4;1;0;0;6;t\n", "4;1;1;0;0;20\n", "4;255;3;0;11;sk\n", "4;255;3;0;0;55\n"]
        after = ["4;1;1;0;0;21\n", "4;1;1;1;2;1\n", "4;2;1;0;0;x\n", "4;1;2;0;0;\n", "4;255;3;0;0;56\n", "4;1;1;0;0;22\n"]
        for mode in ("fresh", "persistent"):
            yield {"version": version, "registry": {}, "mode": "steps", "listen_mode": mode,
                   "ops": [["rx", l] for l in lines] + [["flag", 4, "reboot", True]] + [["rx", l] for l in after] + [["flag", 4, "reboot", False], ["flag", 4, "reboot", True]] + [["rx", l] for l in after]}
    # the whole id space: every node id presents itself, reports and presents a child (ids 0 and 255 are ids like any other)
    for version in ("1.4", "2.2") if tier == "quick" else VERSIONS:
        for start in range(0, 256, 16):
            lines = []
            for node in range(start, start + 16):
                child = (node * 7) % 255
                lines += [f"{node};255;0;0;17;2.1.0\n", f"{node};255;3;0;11;sketch {node}\n", f"{node};255;3;0;0;{node % 101}\n", f"{node};{child};0;0;6;c\n",
                          f"{node};{child};1;0;0;{node}.5\n", f"{node};{child};2;0;0;\n", f"{node};254;0;0;3;last\n", f"{node};0;0;0;3;first\n"]
            yield {"version": version, "registry": {}, "ops": [["rx", line] for line in lines], "mode": "steps", "listen_mode": "persistent" if start % 32 else "fresh"}
    # a full network: every id 0-255 presents itself in ONE history, then reports (the registry holds as many nodes as there are ids)
    for version in ("1.4", "2.2") if tier == "quick" else VERSIONS:
        for order in (range(0, 256), range(255, -1, -1)):
            lines = [f"{node};255;0;0;17;2.0\n" for node in order] + [f"{node};255;3;0;0;{node % 101}\n" for node in (0, 1, 253, 254, 255)] + ["254;3;0;0;6;c\n", "254;3;1;0;0;1\n", "255;255;3;0;3;\n"]
            yield {"version": version, "registry": {}, "ops": [["rx", line] for line in lines], "mode": "steps", "listen_mode": "persistent"}
    # the gateway's version changes mid-history (firmware update, or the first report after a start): traffic of every
    # kind under the first version, the report, then traffic of every kind again (incl. types only the new version knows)
    traffic = ["4;255;0;0;17;2.0\n", "4;1;0;0;6;t\n", "4;1;1;0;0;20\n", "4;1;2;0;0;\n", "4;255;3;0;0;55\n", "4;255;3;0;11;s\n", "4;255;3;0;12;1\n", "4;255;3;0;22;7\n", "4;255;3;0;32;500\n",
               "4;255;3;0;21;\n", "4;255;4;0;0;00\n", "9;255;3;0;22;7\n", "9;255;3;0;21;\n", "9;255;3;0;32;1\n", "9;1;1;0;0;1\n", "9;255;3;0;0;5\n", "4;1;1;1;2;1\n"]
    reports = (None, "1.4", "1.5.1", "2.0.0", "2.1.1", "2.2.0")
    for first in reports:
        for then in reports[1:]:
            if first == then:
                continue
            for form in ("0;255;3;0;2;{}\n", "0;255;0;0;18;{}\n"):
                lines = ([] if first is None else [form.format(first)]) + traffic + [form.format(then)] + traffic
                for mode in ("fresh", "persistent"):
                    yield {"version": None, "registry": {}, "ops": [["rx", line] for line in lines], "mode": "steps", "listen_mode": mode}


def _nontrivial(case: dict) -> bool:
    seen_child: set = set()
    seen_value: set = set()
    nodes_touched = set()
    for node, spec in case["registry"].items():
        for child, cspec in spec["children"].items():
            seen_child.add((int(node), int(child)))
            if cspec["values"]:
                seen_value.add(int(node))
    interesting = False
    for op in case["ops"]:
        if op[0] != "rx":
            continue
        parts = op[1].rstrip("\n").split(";")
        if len(parts) < 6 or not all(plain_int(p) for p in parts[:5]):
            continue
        node, child, cmd = int(parts[0]), int(parts[1]), int(parts[2])
        nodes_touched.add(node)
        if cmd == 0 and child == 255 and any(n == node for n, _c in seen_child):
            interesting = True
        if cmd == 0 and child != 255:
            if (node, child) in seen_child:
                interesting = True
            seen_child.add((node, child))
        if cmd in (1, 2) and (node, child) not in seen_child and node != child:
            interesting = True
    return interesting or len(nodes_touched) >= 2


def run_case(case: dict) -> Outcome:
    if case.get("kind") == "envsweep":
        return drive.run_env_case(case, ASPECTS)
    nontrivial = _nontrivial(case)
    if case.get("mode") == "queue":
        a = env.run(drive.run_plain(case, batch=False))
        b = env.run(drive.run_plain(case, batch=True))
        classes = ("mode=queue", f"events={min(len(a['events']), 9)}")
        for key in ("events", "writes", "snapshot", "version"):
            if a[key] != b[key]:
                return fail(
                    f"queue-vs-steps:{key}",
                    f"one listen() loop over the queued lines gives {key}={b[key]!r}; line by line gives {a[key]!r}",
                    classes=classes,
                )
        return Outcome(ok=True, nontrivial=nontrivial, classes=classes)
    bad, info = env.run(drive.run_history(case, ASPECTS))
    classes = tuple(sorted(info["classes"])) + ("mode=steps",)
    if bad is not None:
        bad.classes = classes
        return bad
    return Outcome(ok=True, nontrivial=nontrivial, classes=classes)
