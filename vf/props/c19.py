"""C19 - a newer protocol version handles the older protocol's message types identically (DESIGN 4.19)."""

from __future__ import annotations

import asyncio
import os

from collections import Counter

from hypothesis import strategies as st

from vf import drive, env, gen
from vf.codec_ref import INTERNAL_MAX, plain_int, ref_verdict
from vf.model import RefController
from vf.runner import Outcome, fail

ID = "C19"
LEVEL = "exploration"
DESIGN_REF = "4.19"
RULE = (
    "differential: two gateways pinned to an (older, newer) pair of protocol versions - all 10 ordered pairs - start from the same generated "
    "registry (incl. sleeping nodes and stored values) and receive the same history (<=25 ops) of lines and application sends of set commands. "
    "The alphabet is every internal and stream type of the OLDER spec table with payloads that exercise the handlers, arbitrary "
    "presentation/set/req types, id requests, malformed and boundary lines from C02's field grammar; version reports and gateway (node 0) presentations are excluded because they "
    "re-pin a gateway; for pairs ending in 2.2 the heartbeat response (the stated exception) is excluded; across 1.x -> 2.x gateway-ready is "
    "excluded and any op that the reference model says refers to an unknown node or child at that point is skipped. Oracle, step by step: "
    "same outcome class, same error attributes (node id / child id, and for unsupported messages the message, not the version text), same "
    "yielded fields, same multiset of writes (time replies compared without the clock value), same registry snapshot. Enumerated part: every internal and stream type of the older table x a payload pool x both ack flags on a fixed registry, for all pairs. Non-trivial = the "
    "history touches >= 3 distinct internal types, or a command was parked for a sleeping node; distinct = distinct case JSON."
    ' Round 5: cases run under generated time zones and compare the time replies of both versions.'
    ' Round 7: fractional report payloads; sequences of the same report (growing, shrinking, repeating) with commands parked in between.'
    ' Round 8: req / internal application sends.'
    ' Round 11: sends that re-use one Message object with changed fields; `rx_race` (a newer command is sent while the wake that releases the older one is writing).'
    ' Round 9: writes compared in order; re-issued parked commands; report sequences ending empty.'
    ' Round 12: hidden-switch sweep per version pair; registry shapes (254 taken, full, empty, 0/255 present) with id requests.'
    ' Round 13: version reports that resolve to no protocol; node version texts of the sleepers.'
    ' Round 14: `rx_cancel` (the listening task is cancelled while the n-th write of the step hangs).'
)
ASSUMPTIONS = [
    "gateway.protocol_version = v (public setter) pins each gateway",
    "enum member renames that do not change handling are deliberately not alarmed on: the statement is about handling",
]
DELETABLE = ("ops",)

PAIRS = (("1.4", "1.5"), ("2.0", "2.1"), ("2.0", "2.2"), ("2.1", "2.2"), ("1.4", "2.0"), ("1.4", "2.1"), ("1.4", "2.2"), ("1.5", "2.0"), ("1.5", "2.1"), ("1.5", "2.2"))


def budgets(tier: str) -> dict:
    if tier == "quick":
        return {"examples": 1600, "shards": 4}
    return {"examples": 100000, "shards": 16}


def _ops(old: str, new: str):
    node = st.sampled_from((1, 2, 1, 2, 1, 2, 3))
    from vf.props import c02

    child = st.sampled_from((0, 1))
    vtype = st.one_of(st.sampled_from((0, 2)), st.sampled_from((0, 2)), st.sampled_from((0, 2)), st.sampled_from((3, 47)), st.integers(0, 56))
    ptype = st.one_of(st.sampled_from((0, 3, 6, 17, 18, 23)), st.integers(0, 39))
    value = gen.short_payloads
    excluded = {2}
    if new == "2.2":
        excluded.add(22)
    if old.startswith("1") and new.startswith("2"):
        excluded.add(14)
    internal_types = [t for t in range(0, INTERNAL_MAX[old] + 1) if t not in excluded]
    itype = st.one_of(st.sampled_from(internal_types), st.sampled_from([t for t in (0, 1, 3, 6, 11, 12, 13, 14, 21, 22) if t in internal_types]))
    ipayload = st.sampled_from(("", "1", "55", "100", "name", "7", "abc", "150", "55.5", "99.7", "100.6", "-0.6", "0.5", "2.5", "3", "1000", "12"))
    send = st.one_of(
        st.builds(lambda n, c, t, v, b: ["send", [n, c, 1, 0, t, v], b], node, child, st.sampled_from((0, 2)), value, st.sampled_from((None, None, False))),
        st.builds(lambda n, c, t, v, b: ["send", [n, c, 1, 0, t, v], b], node, child, st.sampled_from((0, 2)), value, st.sampled_from((None, None, False))),
        # the other commands an application sends: value requests, internal commands (reboot, heartbeat request, presentation request)
        st.builds(lambda n, c, t, a, b: ["send", [n, c, 2, a, t, ""], b], node, child, st.sampled_from((0, 2)), st.sampled_from((0, 1)), st.sampled_from((None, None, False, True))),
        st.builds(lambda n, t, b: ["send", [n, 255, 3, 0, t, ""], b], node, st.sampled_from([t for t in (13, 18, 19, 6) if t <= INTERNAL_MAX[old]] or [13]), st.sampled_from((None, None, False))),
    )
    lines = st.one_of(
        st.builds(lambda n, t, v: f"{n};255;0;0;{t};{v}\n", node, ptype, st.sampled_from(("2.0", "1.4", "2.2.0"))),
        st.builds(lambda n, c, t, p: f"{n};{c};0;0;{t};{p}\n", node, child, ptype, value),
        st.builds(lambda n, c, t, p: f"{n};{c};1;0;{t};{p}\n", node, child, vtype, value),
        st.builds(lambda n, c, t, p: f"{n};{c};1;0;{t};{p}\n", node, child, vtype, value),
        st.builds(lambda n, c, t: f"{n};{c};2;0;{t};\n", node, child, vtype),
        st.builds(lambda n, c, t: f"{n};{c};2;0;{t};\n", node, child, vtype),
        st.builds(lambda n, c, t: f"{n};{c};2;0;{t};\n", node, child, vtype),
        st.builds(lambda n, t, p: f"{n};255;3;0;{t};{p}\n", node, itype, ipayload),
        st.builds(lambda n, t, p: f"{n};255;3;0;{t};{p}\n", node, itype, ipayload),
        st.builds(lambda n, t, p: f"{n};255;3;0;{t};{p}\n", node, itype, ipayload),
        st.builds(lambda n, t: f"{n};255;4;0;{t};ff\n", node, st.integers(0, 5)),
        st.sampled_from(("255;255;3;0;3;\n", "4;9;3;0;3;\n", "junk\n", "1;2\n", "1;255;1;0;0;1\n")),
        # lines around the codec's accept/reject boundary: every version must draw it at the same place
        st.builds(lambda n, c, cmd, t: f"{n};{c};{cmd};0;{t};1\n", node, st.sampled_from((0, 1, 255)), st.sampled_from((0, 1, 2, 3, 4, 5)), st.sampled_from((0, 3, 4, 5))),
        c02._grammar_line().filter(lambda l: ref_verdict(l)["verdict"] == "reject"),
    )
    req = st.builds(lambda n, c, t: ["rx", f"{n};{c};2;0;{t};\n"], node, child, st.sampled_from((0, 2)))
    wake = st.builds(lambda n, t: ["rx", f"{n};255;3;0;{t};5\n"], node, st.sampled_from([t for t in (22, 32) if t in internal_types] or [18 if 18 in internal_types else 9]))
    fault = st.just(["fault_next_write"])
    stranger = st.builds(lambda p: ["rx", f"9;255;3;0;22;{p}\n"], st.sampled_from(("5", "abc", "", "7")))
    extra = [(1, fault)] + ([(1, stranger)] if (new == "2.2" and not (old.startswith("1"))) else [])
    return st.lists(gen.weighted(*extra, (6, gen.with_ack(lines).map(lambda l: ["rx", l])), (3, send), (1, gen.with_ack(req.map(lambda o: o[1])).map(lambda l: ["rx", l])), (1, wake)), min_size=8, max_size=25)


@st.composite
def _registry(draw) -> dict:
    reg: dict = {}
    for node in draw(st.sampled_from(((1, 2), (1, 2, 3), (1,), ()))):
        children = {}
        for child in draw(st.sampled_from(((0, 1), (0,), ()))):
            values = draw(st.dictionaries(st.sampled_from(("0", "2")), gen.short_payloads, max_size=2))
            children[str(child)] = {"child_id": child, "child_type": 3, "description": "", "values": values}
        reg[str(node)] = {
            "node_id": node, "node_type": 17, "protocol_version": "2.0", "sketch_name": "", "sketch_version": "", "battery_level": 0,
            "heartbeat": 0, "sleeping": draw(st.sampled_from((True, True, False))), "children": children, "reboot": draw(st.sampled_from((False, False, True))),
        }
    return reg


ENUM_REGISTRY = {
    "1": {"node_id": 1, "node_type": 17, "protocol_version": "2.0", "sketch_name": "", "sketch_version": "", "battery_level": 0, "heartbeat": 0, "sleeping": False,
          "children": {"0": {"child_id": 0, "child_type": 3, "description": "", "values": {"0": "20"}}}, "reboot": True},
    "2": {"node_id": 2, "node_type": 17, "protocol_version": "2.0", "sketch_name": "", "sketch_version": "", "battery_level": 0, "heartbeat": 0, "sleeping": True,
          "children": {"0": {"child_id": 0, "child_type": 3, "description": "", "values": {}}}, "reboot": False},
}


def enumerate_cases(tier: str):
    """Every message type of the older table x a small payload pool x both ack flags, one step each, on a known registry."""
    payloads = ("", "1", "55", "name", "abc", "100.4", "x;y", "2.0", "55.5", "99.7", "100.6", "-0.6", "2.5") if tier == "quick" else (
        "", "1", "55", "name", "abc", "100.4", "x;y", "2.0", "150", "-1", "ü", "7 ", "55.5", "99.7", "100.6", "-0.6", "0.5", "1.5", "2.5", "1e2", "0x10", " 5")
    for old, new in PAIRS:
        cross = old.startswith("1") and new.startswith("2")
        excluded = {2} | ({22} if new == "2.2" else set()) | ({14} if cross else set())
        for ack in (0, 1):
            for payload in payloads:
                lines = [f"{n};255;3;{ack};{t};{payload}\n" for n in (1, 2) for t in range(0, INTERNAL_MAX[old] + 1) if t not in excluded]
                lines += [f"1;255;4;{ack};{t};{payload}\n" for t in range(0, 6)]
                lines += [f"1;0;1;{ack};{t};{payload}\n" for t in (0, 2, 47)] + [f"1;0;2;{ack};{t};{payload}\n" for t in (0, 2)]
                lines += [f"1;0;0;{ack};{t};{payload}\n" for t in (3, 6)] + [f"3;255;0;{ack};17;{payload}\n", f"4;7;3;{ack};3;{payload}\n"]
                yield {"pair": [old, new], "metric": bool(ack), "registry": ENUM_REGISTRY,
                       "ops": [op for line in lines for op in (["rx", line],)] + [["send", [2, 0, 1, 0, 0, "9"], None], ["rx", "1;0;2;0;0;\n"], ["rx", "1;0;1;0;0;5\n"]]}
    yield from _type_sweep()
    # one event of every kind (messages and application sends) under one environment dimension at a time, both versions in the same environment
    for old, new in PAIRS:
        cross = old.startswith("1") and new.startswith("2")
        excluded = {2} | ({22} if new == "2.2" else set()) | ({14} if cross else set())
        tour_ok: list = []
        for events in drive.TOUR_EVENTS:
            if any(op[0] not in ("rx", "send") for op in events):
                continue
            internal = [int(op[1].split(";")[4]) for op in events if op[0] == "rx" and op[1].count(";") >= 5 and op[1].split(";")[2] == "3" and plain_int(op[1].split(";")[4])]
            internal += [op[1][4] for op in events if op[0] == "send" and op[1][2] == 3]
            if any(t in excluded or t > INTERNAL_MAX[old] for t in internal):
                continue  # (outside the statement: types the older table lacks, the version report, 22 towards 2.2, gateway-ready across generations)
            for dim in ({"debug_log": True}, {"warnings": "error"}, {"via": "mqtt"}, {"via": "stream"}):
                yield {"pair": [old, new], "metric": True, "registry": drive.TOUR_REGISTRY, "ops": [list(op) for op in events], **dim}
            tour_ok.append(events)
        # hidden switches: one message of every type the older table has (payload 0 and 1, from the gateway and from a node), then the tour
        for mtype in range(0, INTERNAL_MAX[old] + 1):
            if mtype in excluded:
                continue
            for sender in (0, 4):
                for payload in ("0", "1"):
                    yield {"pair": [old, new], "metric": True, "registry": drive.TOUR_REGISTRY,
                           "ops": [["rx", f"{sender};255;3;0;{mtype};{payload}\n"]] + [list(op) for events in tour_ok for op in events]}
    # several commands parked for one sleeping node, some re-issued (first, middle, last), then the wake: the same lines in the same order
    for old, new in PAIRS:
        wakes = [t for t in (22, 32) if t <= INTERNAL_MAX[old] and not (t == 22 and new == "2.2")]
        for wake_t in wakes:
            for again in ([0], [1], [2], [0, 2], [2, 0], [1, 1]):
                ops = [["rx", f"2;255;3;0;{wake_t};5\n"]] + [["send", [2, 0, 1, 0, t, f"a{t}"], None] for t in (0, 2, 3)]
                ops += [["send", [2, 0, 1, 0, (0, 2, 3)[i], f"b{i}"], None] for i in again] + [["rx", f"2;255;3;0;{wake_t};6\n"], ["rx", f"2;255;3;0;{wake_t};7\n"]]
                yield {"pair": [old, new], "metric": True, "registry": ENUM_REGISTRY, "ops": ops}
    # the application re-uses one Message object (changing its child, type or payload between sends); a newer command for a key is
    # sent while the wake that releases the older one is still writing on a slow link
    for old, new in PAIRS:
        wakes = [t for t in (22, 32) if t <= INTERNAL_MAX[old] and not (t == 22 and new == "2.2")]
        for wake_t in wakes or [None]:
            first = [["rx", f"2;255;3;0;{wake_t};5\n"]] if wake_t else []
            later = [["rx", f"2;255;3;0;{wake_t};6\n"], ["rx", f"2;255;3;0;{wake_t};7\n"]] if wake_t else [["rx", "2;0;2;0;0;\n"]]
            for second in ([2, 1, 1, 0, 0, "on"], [2, 0, 1, 0, 2, "on"], [2, 0, 1, 0, 0, "off"], [1, 0, 1, 0, 0, "on"], [2, 0, 1, 1, 0, "on"]):
                for buffer in (None, False):
                    ops = first + [["send", [2, 0, 1, 0, 0, "on"], buffer, "slot"], ["send", second, buffer, "slot"]] + later + [["send", [2, 0, 1, 0, 0, "again"], None, "slot"]] + later
                    yield {"pair": [old, new], "metric": True, "registry": ENUM_REGISTRY, "ops": ops}
            if wake_t and not (old.startswith("1") and new.startswith("2")):
                for newer in ([2, 0, 1, 0, 0, "newer"], [2, 1, 1, 0, 0, "other key"], [2, 0, 1, 0, 2, "other type"]):
                    ops = first + [["send", [2, 0, 1, 0, 0, "older"], None], ["send", [2, 1, 1, 0, 2, "second"], None], ["rx_race", f"2;255;3;0;{wake_t};6\n", newer]] + later
                    yield {"pair": [old, new], "metric": True, "registry": ENUM_REGISTRY, "ops": ops}
    # the listening task is cancelled while the wake's release is inside its 1st / 2nd / 3rd write; later wakes show what stayed parked
    for old, new in PAIRS:
        if old.startswith("1"):
            continue
        wakes = [t for t in (22, 32) if t <= INTERNAL_MAX[old] and not (t == 22 and new == "2.2")]
        for wake_t in wakes:
            later = [["rx", f"2;255;3;0;{wake_t};6\n"], ["send", [2, 0, 1, 0, 0, "after"], None], ["rx", f"2;255;3;0;{wake_t};7\n"], ["rx", f"2;255;3;0;{wake_t};8\n"]]
            for nth in (1, 2, 3):
                ops = [["rx", f"2;255;3;0;{wake_t};4\n"], ["send", [2, 0, 1, 0, 0, "a"], None], ["send", [2, 1, 1, 0, 2, "b"], None], ["send", [2, 0, 1, 0, 2, "c"], None], ["rx_cancel", f"2;255;3;0;{wake_t};5\n", nth]] + later
                yield {"pair": [old, new], "metric": True, "registry": ENUM_REGISTRY, "ops": ops}
            # ... and other reacting lines cancelled during their reply (a request answered, a time request)
            for line in ("2;0;2;0;0;\n", "2;255;3;0;1;\n", "2;255;3;0;6;0\n"):
                ops = [["rx", "2;0;1;0;0;21\n"], ["send", [2, 1, 1, 0, 2, "b"], None], ["rx_cancel", line, 1], ["rx", line]] + later
                yield {"pair": [old, new], "metric": True, "registry": ENUM_REGISTRY, "ops": ops}
    # version reports that resolve to no protocol (from the gateway, from a node): refused alike, nothing is re-pinned
    for old, new in PAIRS:
        for text in ("", "garbage", "x.y", "v", "0", "1", "-1"):
            ops = [["rx", f"1;255;3;0;2;{text}\n"], ["rx", f"0;255;3;0;2;{text}\n"], ["rx", f"2;255;3;1;2;{text}\n"], ["rx", "1;0;1;0;0;5\n"], ["send", [2, 0, 1, 0, 0, "9"], None], ["rx", "1;0;2;0;0;\n"]]
            yield {"pair": [old, new], "metric": True, "registry": ENUM_REGISTRY, "ops": ops}
    # what the registry says about the NODE's own library version (free text: "1.4" for a placeholder, empty, nonsense) while it sleeps
    for old, new in PAIRS:
        wakes = [t for t in (22, 32) if t <= INTERNAL_MAX[old] and not (t == 22 and new == "2.2")]
        for node_version in ("1.4", "", "1.5.1", "garbage", "2.0", "3.0", "1"):
            reg = {"2": dict(ENUM_REGISTRY["2"], protocol_version=node_version), "1": dict(ENUM_REGISTRY["1"], protocol_version=node_version)}
            for wake_t in wakes or [None]:
                ops = [["send", [2, 0, 1, 0, 0, "a"], None], ["send", [2, 0, 1, 0, 2, "b"], None], ["send", [1, 0, 1, 0, 0, "c"], None]]
                ops += ([["rx", f"2;255;3;0;{wake_t};5\n"], ["send", [2, 0, 1, 0, 0, "d"], None], ["rx", f"2;255;3;0;{wake_t};6\n"]] if wake_t else []) + [["rx", "2;0;2;0;0;\n"], ["rx", "2;0;1;0;0;7\n"]]
                yield {"pair": [old, new], "metric": True, "registry": reg, "ops": ops}
    # the shape of the registry when ids are asked for: the highest id taken (with gaps below), a full registry, an empty one, ids 0 and 255 present
    def bare(i):
        return {"node_id": i, "node_type": 17, "protocol_version": "2.0", "sketch_name": "", "sketch_version": "", "battery_level": 0, "heartbeat": 0, "sleeping": False, "children": {}}

    for old, new in PAIRS:
        for ids in ((1, 254), (254,), (253,), (1, 2, 253), tuple(range(1, 255)), tuple(range(0, 254)), (), (0,), (255,), (0, 255), (100, 200)):
            reg = {str(i): bare(i) for i in ids}
            ops = [["rx", "255;255;3;0;3;\n"], ["rx", "255;255;3;0;3;\n"], ["rx", "7;5;3;0;3;\n"], ["rx", "9;255;0;0;17;2.0\n"], ["rx", "255;255;3;1;3;\n"], ["rx", "254;255;0;0;17;2.0\n"], ["rx", "255;255;3;0;3;\n"]]
            yield {"pair": [old, new], "metric": True, "registry": reg, "ops": ops}
    # what an application sends to a node that is asleep / awake / unknown, every command kind, then the node wakes
    for old, new in PAIRS:
        wakes = [t for t in (22, 32) if t <= INTERNAL_MAX[old] and not (t == 22 and new == "2.2")]
        for wake_t in wakes or [None]:
            ops = ([["rx", f"2;255;3;0;{wake_t};5\n"]] if wake_t else [])
            for fields in ([2, 0, 2, 0, 0, ""], [2, 0, 2, 1, 0, ""], [2, 255, 3, 0, 13, ""], [2, 255, 3, 0, 18, ""] if INTERNAL_MAX[old] >= 18 else [2, 255, 3, 0, 6, ""], [2, 0, 1, 0, 0, "7"], [1, 0, 2, 0, 0, ""], [9, 0, 2, 0, 0, ""]):
                for buffer in (None, False):
                    ops.append(["send", fields, buffer])
            ops += ([["rx", f"2;255;3;0;{wake_t};6\n"]] if wake_t else []) + [["rx", "2;0;2;0;0;\n"]]
            yield {"pair": [old, new], "metric": True, "registry": ENUM_REGISTRY, "ops": ops}
    # sequences of the same report with changing values (growing, shrinking, repeating), with a command parked in between
    for old, new in PAIRS:
        excluded = {2} | ({22} if new == "2.2" else set())
        for mtype in [t for t in (0, 22, 32, 11, 12, 18) if t <= INTERNAL_MAX[old] and t not in excluded]:
            for seq in (("100", "7"), ("7", "100"), ("5", "5"), ("100", "7", "8", "6"), ("0", "100", "0"), ("Relay Actuator", ""), ("", "x"), ("a", "b", ""), ("1.0", "", "1.0")):
                ops = []
                for idx, text in enumerate(seq):
                    ops += [["rx", f"2;255;3;0;{mtype};{text}\n"], ["send", [2, 0, 1, 0, 0, f"v{idx}"], None], ["rx", f"1;255;3;1;{mtype};{text}\n"]]
                ops += [["rx", "2;0;2;0;0;\n"]]
                yield {"pair": [old, new], "metric": True, "registry": ENUM_REGISTRY, "ops": ops}
    # the same requests in other time zones of the controller process
    for old, new in PAIRS:
        for zone in ("<+0530>-5:30", "<-08>8", "<+14>-14", "JST-9"):
            ops = [["rx", "1;255;3;0;1;\n"], ["rx", "2;255;3;1;1;x\n"], ["rx", "1;255;3;0;6;0\n"], ["rx", "1;0;2;0;0;\n"], ["rx", "1;255;3;0;1;\n"]]
            yield {"pair": [old, new], "metric": True, "registry": ENUM_REGISTRY, "ops": ops, "tz": zone}


def _type_sweep():
    """presentation of every child type, then set + req of every value type of the older table, for all pairs."""
    for old, new in PAIRS:
        vmax = 39 if old == "1.4" else (45 if old == "1.5" else 56)
        pmax = 25 if old == "1.4" else (35 if old == "1.5" else 39)
        for ptype in range(0, pmax + 1):
            ops = [["rx", f"1;7;0;0;{ptype};sensor\n"]]
            for vtype in range(0, vmax + 1):
                ops += [["rx", f"1;7;1;0;{vtype};{vtype}.5\n"], ["rx", f"1;7;2;0;{vtype};\n"]]
            yield {"pair": [old, new], "metric": True, "registry": ENUM_REGISTRY, "ops": ops}


def strategy(tier: str):
    return st.sampled_from(PAIRS).flatmap(
        lambda pair: st.fixed_dictionaries({"pair": st.just(list(pair)), "metric": st.booleans(), "registry": _registry(), "ops": _ops(*pair),
                                            "tz": st.sampled_from((None, None, "UTC0", "<+0530>-5:30", "<-08>8", "<+14>-14", "<+01>-1")),
                                            "debug_log": st.sampled_from((False, False, False, True)), "warnings": st.sampled_from((None, None, None, "error")),
                                            "via": st.sampled_from((None, None, None, "mqtt", "stream"))})
    )


def _norm_writes(lines: list[str]) -> list[str]:
    """The writes of one step IN ORDER (the clock value of a time reply blanked)."""
    out = []
    for line in lines:
        match = drive.TIMEREPLY.match(line)
        out.append(f"{match.group(1)};{match.group(2)};3;0;1;<time>\n" if match else line)
    return out


def _describe(status: str, value) -> tuple:
    outcome = drive.classify(status, value)
    if status == "ok":
        return (outcome, tuple(env.msg_fields(value)))
    if outcome == "missing_node":
        return (outcome, getattr(value, "node_id", None))
    if outcome == "missing_child":
        return (outcome, getattr(value, "child_id", None))
    if outcome == "unsupported":
        return (outcome, tuple(env.msg_fields(getattr(value, "message", None))))
    if outcome == "leak":
        return (outcome, type(value).__name__)
    return (outcome, None)


def _times(lines: list[str]) -> list[int]:
    return sorted(int(m.group(3)) for m in (drive.TIMEREPLY.match(line) for line in lines) if m)


def run_case(case: dict) -> Outcome:
    import os
    import time

    zone = case.get("tz")
    if not zone:
        return _run_case(case)
    # the controller's time zone is part of the environment every version runs in (the time reply is local time)
    saved = os.environ.get("TZ")
    os.environ["TZ"] = zone
    time.tzset()
    try:
        out = _run_case(case)
    finally:
        if saved is None:
            os.environ.pop("TZ", None)
        else:
            os.environ["TZ"] = saved
        time.tzset()
    out.classes = tuple(out.classes or ()) + (f"tz={zone}",)
    return out


def _run_case(case: dict) -> Outcome:
    old, new = case["pair"]
    cross = old.startswith("1") and new.startswith("2")
    info = {"itypes": set(), "parked": False, "skipped": 0, "steps": 0}

    async def go() -> Outcome | None:
        gateways = []
        for version in (old, new):
            gateway, transport = env.make_gateway(version, metric=case.get("metric", True), via=case.get("via"))
            env.install_registry(gateway.nodes, case["registry"])
            gateways.append((gateway, transport))
        shadow = RefController(old, registry=case["registry"]) if cross else None
        objects: dict = {}
        for idx, op in enumerate(case["ops"]):
            where = f"step {idx} {op!r} under {old} vs {new}"
            if op[0] in ("rx_race", "rx_cancel") and shadow is not None:
                info["skipped"] += 1
                continue  # (races are compared between versions of the same generation only)
            if op[0] == "rx" and shadow is not None:
                pred = shadow.rx(op[1])
                if any(o.startswith("missing") for o in pred.outcomes):
                    info["skipped"] += 1
                    continue
            if op[0] == "fault_next_write":
                for _gateway, transport in gateways:
                    transport.fail_attempts = {len(transport.attempts)}  # the next write attempt of each gateway fails
                continue
            results = []
            for gidx, (gateway, transport) in enumerate(gateways):
                transport.step = idx
                if op[0] == "send" and len(op) > 3:
                    # the application keeps one Message object per slot and sets its fields before every send (op[3] = slot)
                    slot = objects.setdefault((gidx, op[3]), env.mk_message(op[1]))
                    slot.node_id, slot.child_id, slot.command, slot.ack, slot.message_type, slot.payload = op[1]
                    status, value = await env.send(gateway, slot, op[2])
                elif op[0] == "send":
                    status, value = await env.send(gateway, env.mk_message(op[1]), op[2])
                elif op[0] == "rx_race":
                    # the line is being handled (its first write takes a moment on a slow link) when the application sends op[2]
                    transport.delay = 0.001
                    receiving = asyncio.ensure_future(env.rx(gateway, op[1]))
                    for _ in range(50):
                        if getattr(transport, "delaying", 0) or receiving.done():
                            break
                        await asyncio.sleep(0)
                    transport.delay = 0.0
                    raced = await env.send(gateway, env.mk_message(op[2]), None)
                    status, value = await receiving
                    if raced[0] != "ok":
                        status, value = raced
                elif op[0] == "rx_cancel":
                    # the application stops listening (its task is cancelled) while the line is being handled: its op[2]-th write of the step hangs on the
                    # link until then (no timing involved: the cancellation comes once that write is seen hanging, or the step is over)
                    count = [0]

                    def hang(_line: str, count=count, nth=op[2]) -> bool:
                        count[0] += 1
                        return count[0] == nth

                    transport.hang_pred = hang
                    before = len(transport.attempts)
                    receiving = asyncio.ensure_future(env.rx(gateway, op[1]))
                    for _ in range(2000):
                        if receiving.done() or any(failed for _s, _l, failed in transport.attempts[before:]):
                            break
                        await asyncio.sleep(0)
                    transport.hang_pred = None
                    receiving.cancel()
                    try:
                        status, value = await receiving
                    except asyncio.CancelledError:
                        status, value = "cancelled", None
                else:
                    status, value = await env.rx(gateway, op[1])
                results.append((_describe(status, value), _norm_writes(transport.writes_at(idx)), env.snapshot(gateway.nodes), status, value, _times(transport.writes_at(idx))))
            info["steps"] += 1
            (d_old, w_old, s_old, st_old, v_old, t_old), (d_new, w_new, s_new, _st_new, v_new, t_new) = results
            if op[0] == "send" and not w_old and st_old == "ok":
                info["parked"] = True
            if op[0] == "rx":
                parts = op[1].split(";")
                if len(parts) >= 6 and parts[2] == "3" and plain_int(parts[4]):
                    info["itypes"].add(int(parts[4]))
            kind = "send" if op[0] == "send" else "race" if op[0] == "rx_race" else "cancel" if op[0] == "rx_cancel" else drive._msgkind(shadow.rx(op[1]).fields if shadow else RefController(old).rx(op[1]).fields)
            if d_old != d_new:
                return fail(f"outcome-differs:{kind}:{old}->{new}", f"{where}: {old} gives {d_old} ({v_old!r}), {new} gives {d_new} ({v_new!r})")
            if w_old != w_new:
                return fail(f"writes-differ:{kind}:{old}->{new}", f"{where}: {old} writes {w_old}, {new} writes {w_new}" + (" (same lines, different order)" if sorted(w_old) == sorted(w_new) else ""))
            if len(t_old) == len(t_new) and any(abs(a - b) > 30 for a, b in zip(t_old, t_new)):
                # (both gateways answered within the same step: the real clock moved by milliseconds, not by a zone offset)
                return fail(f"time-reply-differs:{old}->{new}", f"{where} (TZ={os.environ.get('TZ')!r}): {old} reports time {t_old}, {new} reports {t_new}")
            if s_old != s_new:
                diff = drive._first_diff(s_old, s_new)
                return fail(f"registry-differs:{kind}:{old}->{new}", f"{where}: at {diff[1]}: {old} has {diff[2]!r}, {new} has {diff[3]!r}")
            if op[0] in ("rx_race", "rx_cancel"):
                continue
            if shadow is not None and op[0] == "rx":
                pred = shadow.rx(op[1])
                outcome = d_old[0]
                if drive.outcome_matches(pred.outcomes, outcome):
                    observed = {"snapshot": s_old, "protocol_version": old, "rules": old}
                    if pred.id_request is not None and outcome == "ok":
                        ids = set(s_old) - set(shadow.nodes)
                        observed["assigned_id"] = int(next(iter(ids))) if len(ids) == 1 else None
                    shadow.commit(pred, outcome, observed)
                shadow.nodes = {k: {kk: vv for kk, vv in v.items()} for k, v in s_old.items()}
            elif shadow is not None and op[1][2] == 1:
                shadow.send_set(op[1], True if op[2] is None else op[2])
        return None

    with env.debug_logging(bool(case.get("debug_log"))), env.strict_warnings(case.get("warnings") == "error"):
        bad = env.run(go())
    classes = (f"pair={old}->{new}", f"itypes={min(len(info['itypes']), 6)}") + (("parked-command",) if info["parked"] else ()) + (("ops-skipped",) if info["skipped"] else ())
    if bad is not None:
        bad.classes = classes
        return bad
    return Outcome(ok=True, nontrivial=len(info["itypes"]) >= 3 or info["parked"], classes=classes)
