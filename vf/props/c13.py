"""C13 - persistence round trip: load reads back every registry that save can write (DESIGN 4.13)."""

from __future__ import annotations

import json
import os
import shutil
import tempfile

from hypothesis import strategies as st

from aiomysensors.exceptions import AIOMySensorsError
from aiomysensors.gateway import Config, Gateway

from vf import env, gen
from vf.runner import Outcome, fail

ID = "C13"
LEVEL = "exploration"
DESIGN_REF = "4.13"
RULE = (
    "two case kinds. hist: a gateway (any of five versions) with a persistence file receives a generated history (<=25 lines) of node/child "
    "presentations, sets, battery, sketch name/version, heartbeat, pre-sleep and id requests carrying boundary payloads (battery 150/-3/1e3, "
    "empty and non-ASCII strings, control characters, negative and 10^30 type numbers, node 255); whatever registry results is saved to a "
    "real file and loaded into an empty registry of a second gateway. direct: a registry constructed from schema-valid values (ids 0-255, "
    "any-int types, arbitrary text, battery 0-100, value-type keys incl. negatives) is saved and loaded, and also rendered in the legacy "
    "pymysensors layout (sensor_id/type/id, null for empty sketch fields and for the gateway type) and loaded. Enumerated: registries whose file is 1-4 MiB, and the round trip of non-ASCII text in a child process whose locale encoding is ASCII (LANG=C, UTF-8 mode off). Oracle: load never rejects a "
    "file save wrote; deep equality of all listed attributes before save and after load; legacy and native loads are equal. Non-trivial = "
    ">= 1 child with >= 1 value and a non-default attribute, or a boundary payload reached the registry; distinct = distinct case JSON."
    ' Round 5: load via own path or explicit argument; earlier saves by the same object, file removed in between, repeated saves; an `overlap` kind (second save while the first is in flight, registry grown meanwhile) on the virtual loop.'
    ' Round 8: comment-, template- and JSON-looking texts; hash-equal integer changes between two saves.'
    ' Round 9: `reload_after_use`; `build=outside|two-runs` (objects created before / reused across event loops).'
    ' Round 10: texts not in Unicode NFC; `nested_edit` (child values, descriptions, children edited in place between two saves).'
    ' Round 11: `debug_log`, `warnings=error`, `repath` (Persistence.path reassigned before saving).'
    ' Round 12: `failed_load_first`; the round trips also under `python -O`.'
    ' Round 13: `tilde` (a configured path starting with ~).'
    ' Round 14: `JSON_LOOKING` text (every pair of JSON structural characters inside text fields).'
)
ASSUMPTIONS = [
    "real files in a scratch directory (tmpfs when available), aiofiles and its thread pool unmocked",
    "the legacy layout has no sleeping flag, so legacy equivalence is checked for registries whose nodes are awake",
    "overlap kind: file operations complete in FIFO order (virtual loop, inline executor) and the registry only grows between the two saves, "
    "so the later save's text is longer than and written after the earlier one's; overlapping saves of arbitrary registries are not judged",
]
DELETABLE = ("ops", "mid_saves")

SCRATCH_BASE = "/dev/shm" if os.path.isdir("/dev/shm") and os.access("/dev/shm", os.W_OK) else "/var/tmp"
ODD_TEXT = ("", "åäö", "日本語", "a\tb", "\x00", "x;y", '"quoted"', "back\\slash", " ", "emoji😀", " lead", "{}", "null",
            # text that means something to JSON dialects, templating or shells (it is just text)
            "http://example.org/fw", "door /* north */ side", "a//b", "*/", "/*", "# not a comment", "<!-- x -->", "${HOME}", "%(x)s", "\\u0041", "1.0.", " 2.1", "v3.", "NaN", "Infinity", "true",
            "[1]", '{"a": 1}', "'single'", "trailing,", ",",
            # text that is not in Unicode normal form C (a loader that normalises changes it)
            "u\u0308ber", "Probe 10k\u2126", "\u212a", "e\u0301", "\ufb01", "\u1e9b\u0323", "A\u030a")


JSON_CHARS = (",", ":", "[", "]", "{", "}", '"', "\\", "'", "/")
# every pair of characters that mean something to JSON, adjacent and separated by white space, inside text (a loader that "repairs" the file text
# - trailing commas, comments, quotes - rewrites such text); plus a few longer spellings
JSON_LOOKING = tuple(f"a{x}{y}b" for x in JSON_CHARS for y in JSON_CHARS) + tuple(f"{x} \t{y}" for x in JSON_CHARS for y in JSON_CHARS) + (
    "[1,2,]", '{"a":1,}', "x, }", ",]", ",}", "[,]", "1,\t]", '",]"', '\\",}', "],[", "}{", '":"', "[[],]", "a,]b,}c")


def budgets(tier: str) -> dict:
    if tier == "quick":
        return {"examples": 1500, "shards": 4}
    return {"examples": 30000, "shards": 16}


def _lines():
    node = st.sampled_from((0, 1, 2, 255, 254))
    child = st.sampled_from((0, 1, 254))
    bigtype = st.one_of(st.sampled_from((0, 6, 17, 18, 38, -1, -7, 10**30, 2**63)), st.integers(-5, 60))
    text = st.one_of(st.sampled_from(ODD_TEXT), gen.payloads)
    return st.one_of(
        st.builds(lambda n, t, v: f"{n};255;0;0;{t};{v}\n", node, bigtype, st.one_of(st.sampled_from(("2.0", "1.4", "2.2.0", "2.3.2")), text)),
        st.builds(lambda n, c, t, p: f"{n};{c};0;0;{t};{p}\n", node, child, bigtype, text),
        st.builds(lambda n, c, t, p: f"{n};{c};0;0;{t};{p}\n", node, child, bigtype, text),
        st.builds(lambda n, c, t, p: f"{n};{c};1;0;{t};{p}\n", node, child, bigtype, text),
        st.builds(lambda n, c, t, p: f"{n};{c};1;0;{t};{p}\n", node, child, bigtype, text),
        st.builds(lambda n, b: f"{n};255;3;0;0;{b}\n", node, st.one_of(st.sampled_from(("150", "-3", "1e3", "100", "0", "55", "100.4", "-0.4", "101", "1e2", "99.9", "100.6", "-0.7", "100.5", "-0.5", "100.49", "-0.51", "100.99", "-0.99")),
                                                                     st.integers(-150, 10150).map(lambda v: f"{v / 100:.2f}"))),
        st.builds(lambda n, b: f"{n};255;3;0;0;{b}\n", node, st.sampled_from(("150", "-3", "1e3", "100", "0", "55"))),
        st.builds(lambda n, p: f"{n};255;3;0;11;{p}\n", node, text),
        st.builds(lambda n, p: f"{n};255;3;0;12;{p}\n", node, text),
        st.builds(lambda n, b: f"{n};255;3;0;22;{b}\n", node, st.sampled_from(("0", "-5", "99999999999999999999", "7"))),
        st.builds(lambda n: f"{n};255;3;0;32;\n", node),
        st.just("255;255;3;0;3;\n"),
    )


_int_any = st.one_of(st.integers(-3, 60), st.sampled_from((10**30, -(10**30), 2**63)))
_text = st.one_of(st.sampled_from(ODD_TEXT), st.sampled_from(JSON_LOOKING), st.text(max_size=12))


@st.composite
def _direct_registry(draw) -> dict:
    reg: dict = {}
    for node in draw(st.lists(st.one_of(st.sampled_from((0, 1, 254, 255)), st.integers(0, 255)), max_size=4, unique=True)):
        children = {}
        for child in draw(st.lists(st.one_of(st.sampled_from((0, 1, 254, 255)), st.integers(0, 255)), max_size=3, unique=True)):
            values = draw(st.dictionaries(_int_any.map(str), _text, max_size=3))
            children[str(child)] = {"child_id": child, "child_type": draw(_int_any), "description": draw(_text), "values": values}
        reg[str(node)] = {
            "node_id": node,
            "node_type": draw(st.one_of(st.sampled_from((17, 18, 18)), _int_any)),
            "protocol_version": draw(st.one_of(st.sampled_from(("2.0", "2.2.0", "1.4", "")), _text)),
            "sketch_name": draw(_text),
            "sketch_version": draw(_text),
            "battery_level": draw(st.one_of(st.sampled_from((0, 100, 1, 99)), st.integers(0, 100))),
            "heartbeat": draw(st.one_of(st.just(0), _int_any)),
            "sleeping": draw(st.booleans()),
            "children": children,
        }
    return reg


def strategy(tier: str):
    prior = st.sampled_from((None, None, "raw", "through-save"))
    load_via = st.sampled_from(("own", "own", "explicit"))  # load() of the object's own path, or load(path) of a path given by the caller
    hist = st.fixed_dictionaries(
        {"kind": st.just("hist"), "version": gen.versions, "ops": st.lists(_lines().map(lambda l: ["rx", l]), min_size=4, max_size=25), "prior_save": prior,
         "load_via": load_via,
         # the same Persistence object saved earlier states of the registry (scheduled saves); the file may have been removed since
         "mid_saves": st.one_of(st.just([]), st.lists(st.integers(0, 24), min_size=1, max_size=3, unique=True).map(sorted)),
         "unlink_after_mid": st.sampled_from((False, False, True)),
         "final_saves": st.sampled_from((1, 1, 2)), "build": st.sampled_from((None, None, "outside", "two-runs")), "reload_after_use": st.booleans(), "nested_edit": st.sampled_from((False, False, True)),
         "debug_log": st.sampled_from((False, False, True)), "warnings": st.sampled_from((None, None, "error")), "repath": st.sampled_from((False, False, True)),
         "failed_load_first": st.sampled_from((None, None, None, "garbage", "[1, 2]", '{"9": {"node_id": "x"}}'))}
    )
    direct = st.fixed_dictionaries({"kind": st.just("direct"), "registry": _direct_registry(), "legacy_nulls": st.booleans(), "prior_save": prior, "load_via": load_via,
                                    "final_saves": st.sampled_from((1, 1, 2)), "unlink_after_mid": st.sampled_from((False, False, True)),
                                    "build": st.sampled_from((None, None, "outside", "two-runs")), "reload_after_use": st.booleans(), "nested_edit": st.sampled_from((False, False, True)),
                                    "debug_log": st.sampled_from((False, False, True)), "warnings": st.sampled_from((None, None, "error")), "repath": st.sampled_from((False, False, True))})
    overlap = st.fixed_dictionaries({"kind": st.just("overlap"), "registry": _direct_registry(), "head_start": st.integers(0, 8), "grow": st.integers(1, 3)})
    return gen.weighted((4, hist), (2, direct), (1, overlap))


def enumerate_cases(tier: str):
    # registries whose file is far larger than any I/O buffer (save and load must agree on the whole file)
    for nodes, size in ((20, 60000), (6, 600000)) if tier == "quick" else ((20, 60000), (6, 600000), (40, 120000), (254, 5000)):
        reg = {
            str(i): {"node_id": i, "node_type": 17, "protocol_version": "2.2.0", "sketch_name": "big", "sketch_version": "1", "battery_level": 7, "heartbeat": 0,
                     "sleeping": False, "children": {"1": {"child_id": 1, "child_type": 36, "description": "", "values": {"47": "v" * size}}}}
            for i in range(1, nodes + 1)
        }
        yield {"kind": "direct", "registry": reg, "legacy_nulls": False}
    for count in (255, 256):
        reg = {str(i): {"node_id": i, "node_type": 17, "protocol_version": "2.0", "sketch_name": "", "sketch_version": "", "battery_level": 0, "heartbeat": 0,
                        "sleeping": False, "children": {}} for i in range(256 - count, 256)}
        yield {"kind": "direct", "registry": reg, "legacy_nulls": True}
    yield {"kind": "hist", "version": "2.2", "ops": [["rx", f"{i};255;0;0;17;2.2.0\n"] for i in range(0, 256)]}
    small = {"1": {"node_id": 1, "node_type": 17, "protocol_version": "2.0", "sketch_name": "s", "sketch_version": "1", "battery_level": 5, "heartbeat": 0, "sleeping": False,
                   "children": {"0": {"child_id": 0, "child_type": 6, "description": "d", "values": {"0": "20.5"}}}},
             "2": {"node_id": 2, "node_type": 18, "protocol_version": "2.2.0", "sketch_name": "", "sketch_version": "", "battery_level": 0, "heartbeat": 3, "sleeping": True, "children": {}}}
    for via in ("own", "explicit"):
        for finals in (1, 2):
            for unlink in (False, True):
                yield {"kind": "direct", "registry": small, "legacy_nulls": False, "load_via": via, "final_saves": finals, "unlink_after_mid": unlink}
                yield {"kind": "hist", "version": "2.1", "ops": [["rx", "1;255;0;0;17;2.1\n"], ["rx", "1;0;0;0;6;t\n"], ["rx", "1;0;1;0;0;20\n"], ["rx", "2;255;0;0;17;2.1\n"]],
                       "load_via": via, "final_saves": finals, "unlink_after_mid": unlink, "mid_saves": [1, 3]}
    yield {"kind": "direct", "registry": small, "legacy_nulls": False, "load_via": "own", "final_saves": 1, "nested_edit": True}
    for extra in ({"debug_log": True}, {"warnings": "error"}, {"repath": True}, {"repath": True, "final_saves": 2}, {"debug_log": True, "warnings": "error", "repath": True},
                  {"tilde": True}, {"tilde": True, "final_saves": 2},
                  {"failed_load_first": "not json at all"}, {"failed_load_first": '{"1": {"node_id": 1, "node_ty'}, {"failed_load_first": "[]"}, {"failed_load_first": '{"1": 5}', "final_saves": 2}):
        for via in ("own", "arg"):
            yield {"kind": "direct", "registry": small, "legacy_nulls": False, "load_via": via, "final_saves": 1, **extra}
            yield {"kind": "direct", "registry": {}, "legacy_nulls": False, "load_via": via, "final_saves": 1, **extra}
        yield {"kind": "hist", "version": "2.1", "ops": [["rx", "1;255;0;0;17;2.1\n"], ["rx", "1;0;0;0;6;t\n"], ["rx", "1;0;1;0;0;20\n"]], "load_via": "own", "final_saves": 1, **extra}
    yield {"kind": "hist", "version": "2.1", "ops": [["rx", "1;255;0;0;17;2.1\n"], ["rx", "1;0;0;0;6;t\n"], ["rx", "1;0;1;0;0;20\n"]], "load_via": "own", "final_saves": 2, "nested_edit": True}
    for build in ("outside", "two-runs"):
        yield {"kind": "direct", "registry": small, "legacy_nulls": False, "load_via": "own", "final_saves": 1, "build": build}
        yield {"kind": "hist", "version": "2.1", "ops": [["rx", "1;255;0;0;17;2.1\n"], ["rx", "1;0;0;0;6;t\n"], ["rx", "1;0;1;0;0;20\n"]], "load_via": "own", "final_saves": 1, "build": build}
    yield {"kind": "direct", "registry": small, "legacy_nulls": False, "load_via": "own", "final_saves": 1, "reload_after_use": True}
    yield {"kind": "hist", "version": "2.1", "ops": [["rx", "1;255;0;0;17;2.1\n"], ["rx", "1;0;0;0;6;t\n"], ["rx", "1;0;1;0;0;20\n"], ["rx", "1;255;3;0;0;7\n"]], "load_via": "explicit", "final_saves": 1,
           "reload_after_use": True}
    # texts in every text field, one per case: saved and loaded back unchanged
    for text in ODD_TEXT + JSON_LOOKING:
        ops = [["rx", "1;255;0;0;17;2.1\n"], ["rx", f"1;255;3;0;11;{text}\n"], ["rx", f"1;255;3;0;12;{text}\n"], ["rx", f"1;0;0;0;6;{text}\n"], ["rx", f"1;0;1;0;47;{text}\n"], ["rx", f"2;255;0;0;17;{text}\n"]]
        yield {"kind": "hist", "version": "2.2", "ops": ops, "load_via": "own", "final_saves": 1}
    # integer fields changing between two saves by the same object to values with the same hash() (-1/-2, n / n + 2**61-1)
    M = 2**61 - 1
    for a, b in ((-1, -2), (-2, -1), (0, M), (1, M + 1), (5, 5 + M), (M, 0), (6, 6 - M)):
        ops = [["rx", f"1;255;0;0;{a};2.1\n"], ["rx", f"1;0;0;0;{a};d\n"], ["rx", f"1;255;3;0;22;{a}\n"], ["rx", f"1;255;0;0;{b};2.1\n"], ["rx", f"1;0;0;0;{b};d\n"], ["rx", f"1;255;3;0;22;{b}\n"]]
        yield {"kind": "hist", "version": "2.1", "ops": ops, "load_via": "own", "final_saves": 1, "mid_saves": [2]}
        yield {"kind": "hist", "version": "2.1", "ops": ops, "load_via": "own", "final_saves": 2, "mid_saves": [0, 1, 2, 3, 4]}
    # a save still in flight (the scheduled one) when the application saves a registry that has grown meanwhile
    for head_start in range(0, 10):
        for grow in (1, 2):
            yield {"kind": "overlap", "registry": small, "head_start": head_start, "grow": grow}
            yield {"kind": "overlap", "registry": {}, "head_start": head_start, "grow": grow}
    # the same round trip in a process whose locale encoding is ASCII (a service started with LANG=C)
    for text in ("Küche °C", "温度センサー", "emoji😀", "plain"):
        yield {"kind": "locale", "text": text}


LOCALE_CHILD = r"""
import asyncio, json, sys
from aiomysensors.gateway import Config, Gateway
from aiomysensors.model.node import Node
from aiomysensors.transport import Transport
class T(Transport):
    async def connect(self): pass
    async def disconnect(self): pass
    async def read(self): raise EOFError
    async def write(self, m): pass
path, text = sys.argv[1], sys.argv[2]
async def main():
    g = Gateway(T(), Config(persistence_file=path))
    g.nodes[1] = Node(1, 17, "2.0", sketch_name=text, sketch_version=text)
    g.nodes[1].add_child(1, 6, text)
    g.nodes[1].children[1].values[47] = text
    await g.persistence.save()
    h = Gateway(T(), Config(persistence_file=path))
    await h.persistence.load()
    n = h.nodes[1]
    got = [n.sketch_name, n.sketch_version, n.children[1].description, n.children[1].values[47]]
    print(json.dumps({"ok": got == [text] * 4, "got": got}))
try:
    asyncio.run(main())
except BaseException as err:
    print(json.dumps({"ok": False, "error": repr(err)}))
"""


def _run_locale(case: dict) -> Outcome:
    import subprocess
    import sys

    scratch = tempfile.mkdtemp(prefix="vf-c13-", dir=SCRATCH_BASE)
    try:
        env_vars = {k: v for k, v in os.environ.items() if not k.startswith("LC_") and k not in ("LANG", "LANGUAGE", "PYTHONUTF8", "PYTHONIOENCODING")}
        env_vars.update(LC_ALL="C", LANG="C", PYTHONUTF8="0", PYTHONCOERCECLOCALE="0")
        proc = subprocess.run([sys.executable, "-B", "-c", LOCALE_CHILD, os.path.join(scratch, "p.json"), case["text"]], capture_output=True, text=True, env=env_vars, encoding="utf-8", errors="replace")
        line = (proc.stdout.strip().splitlines() or ["{}"])[-1]
        try:
            res = json.loads(line)
        except ValueError:
            res = {"ok": False, "error": (proc.stdout + proc.stderr)[-300:]}
    finally:
        shutil.rmtree(scratch, ignore_errors=True)
    classes = ("kind=locale",)
    if not res.get("ok"):
        return fail("ascii-locale:roundtrip", f"save+load of text {case['text']!r} in a process with an ASCII locale encoding: {res}", classes=classes)
    return Outcome(ok=True, nontrivial=any(ord(c) > 127 for c in case["text"]), classes=classes)


def _legacy(snapshot: dict, nulls: bool) -> dict:
    out = {}
    for key, node in snapshot.items():
        out[key] = {
            "sensor_id": node["node_id"],
            "type": None if (nulls and node["node_type"] == 18) else node["node_type"],
            "protocol_version": node["protocol_version"],
            "sketch_name": None if (nulls and node["sketch_name"] == "") else node["sketch_name"],
            "sketch_version": None if (nulls and node["sketch_version"] == "") else node["sketch_version"],
            "battery_level": node["battery_level"],
            "heartbeat": node["heartbeat"],
            "children": {
                ckey: {"id": child["child_id"], "type": child["child_type"], "description": child["description"], "values": child["values"]}
                for ckey, child in node["children"].items()
            },
        }
    return out


async def _load(path: str, via: str = "own") -> tuple[str, object]:
    own = path if via == "own" else path + ".own-path-of-the-loader"
    gateway = Gateway(env.RecordingTransport(), Config(persistence_file=own))
    try:
        if via == "own":
            await gateway.persistence.load()
        else:
            await gateway.persistence.load(path)
    except AIOMySensorsError as err:
        return "liberr", err
    except Exception as err:  # noqa: BLE001
        return "leak", err
    return "ok", env.snapshot(gateway.nodes)


def _interesting(snapshot: dict) -> bool:
    for node in snapshot.values():
        nondefault = node["sketch_name"] or node["battery_level"] or node["heartbeat"] or node["sleeping"]
        for child in node["children"].values():
            if child["values"] and nondefault:
                return True
    return False


def _run_overlap(case: dict) -> Outcome:
    """Two saves of one Persistence object overlap; the registry only grew in between, so the later save's file is a superset."""
    from vf.vloop import Deadlock, run_virtual

    scratch = tempfile.mkdtemp(prefix="vf-c13-", dir=SCRATCH_BASE)
    path = os.path.join(scratch, "persistence.json")
    classes = ("kind=overlap", f"head-start={min(case['head_start'], 9)}")

    async def go() -> Outcome | None:
        import asyncio

        gateway = Gateway(env.RecordingTransport(), Config(persistence_file=path))
        gateway.protocol_version = "2.2"
        env.install_registry(gateway.nodes, case["registry"])
        first = asyncio.ensure_future(gateway.persistence.save())
        for _ in range(case["head_start"]):
            await asyncio.sleep(0)
        fresh = [i for i in range(1, 255) if i not in gateway.nodes][: case["grow"]]  # the registry strictly grows: nothing is replaced
        for extra in fresh:
            await env.rx(gateway, f"{extra};255;0;0;17;2.2.0\n")
        want = env.snapshot(gateway.nodes)
        try:
            await gateway.persistence.save()  # awaited to completion by the application
            await first
        except Exception as err:  # noqa: BLE001
            return fail(f"overlap:save-raises:{type(err).__name__}", f"{err!r}")
        status, after = await _load(path)
        if status != "ok":
            return fail(f"overlap:load-rejects-saved-file:{type(after).__name__}", f"after two overlapping saves load raised {after!r}")
        if after != want:
            from vf.drive import _first_diff

            diff = _first_diff(want, after)
            return fail(f"overlap:later-save-not-in-file:{diff[0]}", f"save() returned for a registry with nodes {sorted(want)}; the file holds nodes {sorted(after)} (at {diff[1]}: {diff[2]!r} vs {diff[3]!r})")
        return None

    try:
        bad, _loop = run_virtual(go)
    except Deadlock:
        bad = fail("overlap:deadlock", "overlapping saves never finish")
    finally:
        shutil.rmtree(scratch, ignore_errors=True)
    if bad is not None:
        bad.classes = classes
        return bad
    return Outcome(ok=True, nontrivial=True, classes=classes)


def opt_cases(tier: str):
    """Cases also executed by an interpreter started with -O (see vf/optpass.py): the enumerated direct and history round trips."""
    for case in enumerate_cases(tier):
        if case.get("kind") in ("direct", "hist") and not case.get("build"):
            yield case


def run_case(case: dict) -> Outcome:
    if case["kind"] == "locale":
        return _run_locale(case)
    if case["kind"] == "overlap":
        return _run_overlap(case)
    scratch = tempfile.mkdtemp(prefix="vf-c13-", dir=SCRATCH_BASE)
    path = os.path.join(scratch, "persistence.json")
    info = {"boundary": False, "snapshot": {}}

    restore_env = None
    if case.get("tilde"):
        # the configured path starts with "~" (as typed into a settings file); the process runs in its data directory, HOME points elsewhere.
        # Whatever the library makes of the tilde, saving and loading must agree on it.
        restore_env = (os.getcwd(), os.environ.get("HOME"))
        os.makedirs(os.path.join(scratch, "~"), exist_ok=True)
        os.makedirs(os.path.join(scratch, "home"), exist_ok=True)
        os.chdir(scratch)
        os.environ["HOME"] = os.path.join(scratch, "home")
        path = os.path.join("~", "persistence.json")
    built_outside = None
    if case.get("build") in ("outside", "two-runs"):
        try:
            built_outside = Gateway(env.RecordingTransport(), Config(persistence_file=path))
        except Exception as err:  # noqa: BLE001
            shutil.rmtree(scratch, ignore_errors=True)
            return fail(f"construct-raises:{type(err).__name__}", f"Gateway(..., Config(persistence_file=...)) built by synchronous start-up code (no event loop yet) raised {err!r}")

    async def go() -> Outcome | None:
        nonlocal path
        # "outside": the objects are created by synchronous start-up code before any event loop runs (then asyncio.run)
        gateway = built_outside or Gateway(env.RecordingTransport(), Config(persistence_file=path))
        if case.get("failed_load_first"):
            # the object first met a damaged file (reported as PersistenceReadError, as it should be); the application goes on with
            # what it learns from the network and saves: the file is rewritten
            with open(path, "w", encoding="utf-8") as fil:
                fil.write(case["failed_load_first"])
            try:
                await gateway.persistence.load()
            except AIOMySensorsError:
                pass
            except Exception as err:  # noqa: BLE001
                return fail(f"load-rejects-saved-file:earlier-session:{type(err).__name__}", f"loading a damaged file raised {err!r}")
        if case.get("repath"):
            # the application points the Persistence object at another file after it was built (its `path` is a public field)
            path = os.path.join(scratch, "moved-registry.json")
            gateway.persistence.path = path
        if case["kind"] == "hist":
            gateway.protocol_version = case["version"]
            mids = set(case.get("mid_saves") or ())
            for idx, op in enumerate(case["ops"]):
                await env.rx(gateway, op[1])
                if idx in mids:
                    await gateway.persistence.save()
                    info["mid"] = True
            if info.get("mid") and case.get("unlink_after_mid") and os.path.exists(path):
                os.unlink(path)
        else:
            env.install_registry(gateway.nodes, case["registry"])
        if case.get("prior_save"):
            # an earlier session left a (typically longer) file at the same path
            with open(path, "w", encoding="utf-8") as fil:
                fil.write(json.dumps({str(i): {"node_id": i, "node_type": 17, "protocol_version": "2.2.0", "sketch_name": "an earlier, longer file " * 4,
                                               "children": {"1": {"child_id": 1, "child_type": 6, "values": {"0": "x" * 50}}}} for i in range(1, 6)}, indent=2))
            if case["prior_save"] == "through-save":
                prior = Gateway(env.RecordingTransport(), Config(persistence_file=path))
                try:
                    await prior.persistence.load()
                    await prior.persistence.save()
                except Exception as err:  # noqa: BLE001
                    return fail(f"load-rejects-saved-file:earlier-session:{type(err).__name__}", f"an earlier session (load the well-formed file, save it) raised {err!r}")
        before = env.snapshot(gateway.nodes)
        info["snapshot"] = before
        for node in before.values():
            if not 0 <= node["battery_level"] <= 100 or abs(node["node_type"]) > 2**31 or node["node_id"] == 255 or any(ord(ch) > 127 or ord(ch) < 32 for ch in node["sketch_name"] + node["protocol_version"]):
                info["boundary"] = True
        try:
            if case.get("nested_edit") and gateway.nodes:
                # saved once; then the application edits the nested public objects in place (child values, descriptions, children); saved again
                await gateway.persistence.save()
                from aiomysensors.model.node import Child as _Child

                for node in gateway.nodes.values():
                    for child in node.children.values():
                        child.values[2] = "edited in place"
                        child.description = "edited description"
                    node.children[250] = _Child(250, 3, description="put there directly", values={0: "x"})
                before = env.snapshot(gateway.nodes)
                info["snapshot"] = before
            await gateway.persistence.save()
            if case.get("final_saves", 1) > 1:
                if case["kind"] == "direct" and case.get("unlink_after_mid") and os.path.exists(path):
                    os.unlink(path)  # saved, file removed by someone, saved again unchanged: the file must be back
                await gateway.persistence.save()
        except Exception as err:  # noqa: BLE001
            return fail(f"save-raises:{type(err).__name__}", f"save of {before!r} raised {err!r}")
        if case.get("build") == "two-runs":
            info["loader"] = gateway  # the same objects are used again under a second asyncio.run
            info["before"] = before
            return None
        status, after = await _load(path, case.get("load_via", "own"))
        if status != "ok":
            why = "battery-out-of-range" if any(not 0 <= n["battery_level"] <= 100 for n in before.values()) else type(after).__name__
            return fail(f"load-rejects-saved-file:{why}", f"registry {before!r} was saved, load raised {after!r}")
        if after != before:
            from vf.drive import _first_diff

            diff = _first_diff(before, after)
            return fail(f"roundtrip-differs:{diff[0]}", f"at {diff[1]}: saved {diff[2]!r}, loaded {diff[3]!r}")
        # Q: the file just loaded is loaded once more after the first result was used (and changed) by its owner
        if case.get("reload_after_use"):
            owner = Gateway(env.RecordingTransport(), Config(persistence_file=path))
            await owner.persistence.load()
            for node in owner.nodes.values():
                node.battery_level = 55 if node.battery_level != 55 else 56
                node.sketch_name = "changed by the first loader"
                node.add_child(200, 6, "added by the first loader")
                for child in node.children.values():
                    child.values[0] = "31.5"
            status2, again = await _load(path, case.get("load_via", "own"))
            if status2 != "ok":
                return fail(f"second-load-raises:{type(again).__name__}", f"loading the same file a second time raised {again!r}")
            if again != before:
                from vf.drive import _first_diff

                diff = _first_diff(before, again)
                return fail(f"second-load-differs:{diff[0]}", f"the file was loaded, the first loader changed its registry, the file (unchanged) was loaded again: at {diff[1]} saved {diff[2]!r}, loaded {diff[3]!r}")
        if case["kind"] == "direct" and not any(n["sleeping"] for n in before.values()):
            legacy_path = os.path.join(scratch, "legacy.json")
            with open(legacy_path, "w", encoding="utf-8") as fil:
                json.dump(_legacy(before, case["legacy_nulls"]), fil)
            lstatus, lafter = await _load(legacy_path)
            if lstatus != "ok":
                return fail(f"legacy-load-raises:{type(lafter).__name__}", f"legacy layout of {before!r}: {lafter!r}")
            if lafter != after:
                from vf.drive import _first_diff

                diff = _first_diff(after, lafter)
                return fail(f"legacy-differs:{diff[0]}", f"at {diff[1]}: native load {diff[2]!r}, legacy load {diff[3]!r}")
        return None

    try:
        with env.debug_logging(bool(case.get("debug_log"))), env.strict_warnings(case.get("warnings") == "error"):
            bad = env.run(go())
        if bad is None and case.get("build") == "two-runs":
            async def second_run() -> Outcome | None:
                saver = info["loader"]
                try:
                    await saver.persistence.save()  # the object built before the first loop, used under a second one
                    saver.nodes.clear()
                    await saver.persistence.load()
                except Exception as err:  # noqa: BLE001
                    return fail(f"second-run-raises:{type(err).__name__}", f"save/load of the same Persistence object under a second event loop raised {err!r}")
                after = env.snapshot(saver.nodes)
                if after != info["before"]:
                    from vf.drive import _first_diff

                    diff = _first_diff(info["before"], after)
                    return fail(f"roundtrip-differs:{diff[0]}", f"(second event loop) at {diff[1]}: saved {diff[2]!r}, loaded {diff[3]!r}")
                return None

            bad = env.run(second_run())
    finally:
        if restore_env is not None:
            os.chdir(restore_env[0])
            if restore_env[1] is None:
                os.environ.pop("HOME", None)
            else:
                os.environ["HOME"] = restore_env[1]
        shutil.rmtree(scratch, ignore_errors=True)
    classes = (f"kind={case['kind']}", f"nodes={min(len(info['snapshot']), 4)}") + ((f"build={case['build']}",) if case.get("build") else ()) + (("boundary-value-in-registry",) if info["boundary"] else ())
    if bad is not None:
        bad.classes = classes
        return bad
    return Outcome(ok=True, nontrivial=_interesting(info["snapshot"]) or info["boundary"], classes=classes)
