"""C01 - wire codec round trip (DESIGN 4.1)."""

from __future__ import annotations

import asyncio

from hypothesis import strategies as st

from aiomysensors.model.message import Message, MessageSchema
from aiomysensors.model.protocol import get_protocol
from marshmallow import ValidationError

from vf import env, gen
from vf.codec_ref import ref_format
from vf.runner import Outcome, fail

ID = "C01"
LEVEL = "exploration"
DESIGN_REF = "4.1"
RULE = (
    "cases = protocol version x message built by construction from the cross-field rules "
    "(node 0-255, child per command class, ack 0/1, any integer type incl. 2^63/10^30/negatives) "
    "x payload without line terminators/trailing whitespace (biased to ';'-containing) x line-ending variant; "
    "oracles: dump == explicit formatter, load(dump(m)) == m with exact types, dump(load(line)) == line.rstrip()+'\\n', "
    "and the same through Gateway.send / Gateway.listen. Non-trivial = payload contains ';' or a boundary id "
    "(99,100,254,255) or id-request/response with child != 255 or |type| >= 2^31; distinct = distinct case JSON."
    ' Round 5: the schema/gateway may be built in a copied contextvars context or another thread (`ctx`), and the warm-up may contain ill-formed look-alikes of the message (each field replaced, or the line cut short).'
    ' Round 6: a decoded message (or a copy of it) edited by the caller must encode to its edited fields.'
    " Round 7: header grid (nodes x shapes x ack x types 0-40) with a ';' payload; line-ending variants decoded before the encoder is checked."
    ' Round 8: cut warm-up lines without terminator; lone-surrogate payloads.'
    ' Round 10: sibling messages (same destination, different payloads) through one schema object in both orders; header-looking and quoted payloads enumerated.'
    ' Round 11: every enumerated payload and version-looking text under every command and type; `pre_dumps` (headers whose digits concatenate equally, through one schema).'
    ' Round 12: header pairs whose number tuples hash alike in CPython.'
    ' Round 13: `bystander_config` (bystander codec / gateway objects built with every constructor option unknown to this harness).'
    ' Round 14: `bad_dumps` (an encode refused part-way - an object with only some of the six attributes - precedes the message on the same schema).'
)
ASSUMPTIONS = [
    "MessageSchema with set_protocol(get_protocol(v)) is the codec entry point (as in the repository's tests)",
    "payload domain as stated in C01: no str.splitlines terminator, no trailing whitespace",
]

DELETABLE = ("warmup", "warm_mut")
ENDINGS = ("\n", "", "\r\n", " \n", "  ")


def budgets(tier: str) -> dict:
    if tier == "quick":
        return {"examples": 4000, "shards": 4}
    return {"examples": 200000, "shards": 16}


WARM_TEXT = ("x", "", "999", "-1", "256", "5", " ", "1.5", "\x7f", "3;3")


def warm_lines(msg: list, muts: list) -> list[str]:
    """Lines a long-lived schema saw earlier that look like the message: one field replaced, or cut short."""
    out = []
    for pos, text in muts:
        fields = [str(x) for x in msg[:5]] + [msg[5]]
        if pos in ("cut", "cutraw"):
            fields = fields[: int(text)]
        else:
            fields[pos] = text
        out.append(";".join(fields) + ("" if pos == "cutraw" else "\n"))  # "cutraw": a fragment without terminator (a partial read)
    return out


def strategy(tier: str):
    mut = st.one_of(
        st.tuples(st.integers(0, 5), st.sampled_from(WARM_TEXT)).map(list),
        st.tuples(st.sampled_from(("cut", "cutraw")), st.sampled_from(("0", "1", "3", "4", "5"))).map(list),
    )
    return st.fixed_dictionaries(
        {
            "version": gen.versions,
            "msg": st.one_of(gen.wellformed_message(), gen.wellformed_message(), gen.wellformed_message(),
                             st.tuples(gen.wellformed_message(), st.sampled_from(("\ud800", "t \ud83c", "a\udfffb;c", "\udc80"))).map(lambda t: t[0][:5] + [t[1]])),
            "ending": st.sampled_from(ENDINGS),
            "warmup": st.one_of(st.just([]), st.lists(gen.wellformed_message().map(gen.line_of), max_size=3)),
            "warm_mut": st.one_of(st.just([]), st.lists(mut, min_size=1, max_size=3)),
            "debug_log": st.sampled_from((False, False, True)),
            "ctx": st.sampled_from(("same", "same", "copied", "thread")),
            "bystander_config": st.sampled_from((False, False, False, True)),
            "bad_dumps": st.one_of(st.just([]), st.just([]), st.lists(st.integers(0, 7), min_size=1, max_size=3)),
        }
    )


def enumerate_cases(tier: str):
    from vf.codec_ref import VERSIONS

    for version in VERSIONS:
        for warm in ("1;1;1;0;2;1\n", "1;1;2;0;2;\n", "1;1;0;0;3;relay\n", "1;255;3;0;0;55\n", "1;255;0;0;17;2.0\n", "1;255;4;0;0;ff\n"):
            for msg in ([1, 5, 3, 0, 3, ""], [255, 0, 3, 1, 4, "7"], [1, 255, 3, 0, 3, ""], [9, 254, 1, 0, 2, "a;b"], [9, 255, 0, 0, 17, "2.2.0"], [3, 255, 4, 0, 1, "ff"], [3, 1, 2, 1, 0, ""]):
                yield {"version": version, "msg": msg, "ending": "\n", "warmup": [warm, warm]}
        # a grid over the header space with a delimiter-carrying payload: no header point may have a private decoding path
        if tier == "thorough" or version in ("1.4", "2.2"):
            for node in (0, 1, 255):
                for child, command in ((255, 0), (1, 0), (1, 1), (1, 2), (255, 3), (255, 4)):
                    for ack in (0, 1):
                        for mtype in range(0, 41):
                            for text in (("a;b",) if tier == "quick" else ("a;b", ";", "x;;y;")):
                                yield {"version": version, "msg": [node, child, command, ack, mtype, text], "ending": "\n", "warmup": []}
        # every line-ending variant decoded first, then the encoder must still end lines with a single newline
        for warm_end in ("\r\n", "\r", " \n", "", "\n\n"):
            for msg in ([1, 0, 1, 0, 2, "20.5"], [0, 255, 3, 0, 9, "log"], [3, 5, 3, 1, 3, ""]):
                yield {"version": version, "msg": msg, "ending": "\n", "warmup": [gen.line_of(msg)[:-1] + warm_end, "7;255;3;0;0;55" + warm_end]}
        # a reused schema that rejected a look-alike of the message just before (every field, every rejection class)
        for msg in ([1, 0, 1, 0, 2, "20.5"], [3, 5, 3, 0, 3, ""], [3, 255, 3, 0, 9, "log;x"], [7, 255, 0, 1, 17, "2.2"], [9, 255, 4, 0, 1, "ff"], [2, 4, 2, 0, 0, ""]):
            for pos in range(5):
                for text in WARM_TEXT:
                    yield {"version": version, "msg": msg, "ending": "\n", "warmup": [], "warm_mut": [[pos, text]]}
            for cut in ("0", "1", "3", "4", "5"):
                yield {"version": version, "msg": msg, "ending": "\n", "warmup": [], "warm_mut": [["cut", cut]]}
                yield {"version": version, "msg": msg, "ending": "\n", "warmup": [], "warm_mut": [["cutraw", cut]]}
            # payloads holding lone surrogates (what json.loads or surrogateescape decoding hand to an application): plain str data for the codec
            for text in gen.DELIM_PAYLOADS + gen.PLAIN_PAYLOADS:
                yield {"version": version, "msg": msg[:5] + [text.rstrip()], "ending": "\n", "warmup": []}
            for text in ("\ud800", "temp \ud83c", "a\udfffb", "\udc80;\udcff", "x" * 30 + "\ud800"):
                yield {"version": version, "msg": msg[:5] + [text], "ending": "\n", "warmup": []}
            for ctx in env.CTX_MODES:
                yield {"version": version, "msg": msg, "ending": "\n", "warmup": [], "ctx": ctx}
            # the long-lived schema was asked to encode something that is not a complete message just before (refused part-way)
            for shape in range(8):
                yield {"version": version, "msg": msg, "ending": "\n", "warmup": [], "bad_dumps": [shape]}
            yield {"version": version, "msg": msg, "ending": "\n", "warmup": [], "bad_dumps": [3, 1, 5]}
        # every payload of the enumerated sets (and version-looking text) under every command and type: no type has a private payload rule
        if tier == "thorough" or version in ("1.4", "2.2"):
            for command, child, types in ((3, 255, range(0, 36)), (0, 255, (17, 18)), (0, 1, range(0, 8)), (1, 1, range(0, 12)), (2, 1, range(0, 6)), (4, 255, range(0, 6))):
                for mtype in types:
                    for text in gen.PLAIN_PAYLOADS + gen.DELIM_PAYLOADS + VERSION_LOOKING:
                        yield {"version": version, "msg": [0 if command == 3 and mtype == 2 else 7, child, command, 0, mtype, text.rstrip()], "ending": "\n", "warmup": []}
            # one long-lived schema encodes messages whose headers read the same once the separators are dropped
            for first, second in _collision_pairs():
                yield {"version": version, "msg": list(second) + ["x"], "ending": "\n", "warmup": [], "pre_dumps": [list(first) + ["first"]]}
        # other, differently configured codec and gateway objects exist in the process
        for msg in ([1, 0, 1, 0, 2, "20.5"], [3, 255, 3, 0, 9, "a log line that is longer than a radio frame; with; delimiters"], [9, 1, 1, 1, 47, "p" * 300], [7, 255, 0, 0, 17, "2.2.0"]):
            yield {"version": version, "msg": msg, "ending": "\n", "warmup": [], "bystander_config": True}
        for size in (51, 200, 65530, 65537, 70000, 200000):
            for debug in (False, True):
                yield {"version": version, "msg": [12, 3, 1, 1, 47, "p" * size], "ending": "\n", "warmup": [], "debug_log": debug}
                yield {"version": version, "msg": [12, 255, 3, 0, 9, "é;" * (size // 2)], "ending": "\n", "warmup": [], "debug_log": debug}


VERSION_LOOKING = ("v2.3.2", "V2.2", "2.3.", "2.2.0.", "v", "1.", ".5", "2.2.0-beta", "2.2.0+build", " 2.2", "2.2.0 (release)", "02.02", "2.02.0")


def _collision_pairs():
    """Pairs of headers whose fields, written without separators, give the same text ((1, 23, ...) and (12, 3, ...))."""
    groups: dict = {}
    for node in (1, 12, 123, 2, 23, 11, 21):
        for child in (1, 2, 3, 12, 23, 21, 11, 0, 10):
            for command in (0, 1, 2):
                for ack in (0, 1):
                    for mtype in (0, 1, 2, 3, 10, 11, 21, 12):
                        header = (node, child, command, ack, mtype)
                        groups.setdefault("".join(str(x) for x in header), []).append(header)
    for members in groups.values():
        members = members[:3]
        for a in members:
            for b in members:
                if a != b:
                    yield a, b
    # ... or whose tuples of numbers hash alike in CPython (hash(-1) == hash(-2); hash(n) == hash(n + 2**61 - 1))
    for node, child, command, ack in ((7, 255, 3, 0), (7, 1, 1, 1), (0, 255, 3, 0)):
        for a_type, b_type in ((-1, -2), (0, 2**61 - 1), (5, 5 + 2**61 - 1), (2, 2 - (2**61 - 1)), (1, 1 + 2 * (2**61 - 1))):
            yield (node, child, command, ack, a_type), (node, child, command, ack, b_type)
            yield (node, child, command, ack, b_type), (node, child, command, ack, a_type)


def _differently_configured_bystanders() -> int:
    """Other codec / gateway objects in the process, built with every constructor option this harness does not know set to a few
    sample values (a future option must configure the object it is given to, not its siblings). Returns how many were built."""
    import dataclasses
    import inspect

    from aiomysensors.gateway import Config, Gateway

    built = 0
    marshmallow_params = {"self", "only", "exclude", "many", "context", "load_only", "dump_only", "partial", "unknown", "args", "kwargs"}
    extra_schema = [n for n, p in inspect.signature(MessageSchema.__init__).parameters.items() if n not in marshmallow_params and p.kind in (p.POSITIONAL_OR_KEYWORD, p.KEYWORD_ONLY)]
    extra_config = [f.name for f in dataclasses.fields(Config) if f.name not in ("metric", "persistence_file")]
    for value in (1, 8, True, "x", 0):
        for name in extra_schema:
            try:
                MessageSchema(**{name: value})
                built += 1
            except Exception:  # noqa: BLE001
                pass
        for name in extra_config:
            try:
                Gateway(env.RecordingTransport(), Config(**{name: value}))
                built += 1
            except Exception:  # noqa: BLE001
                pass
    return built


def _incomplete_message(shape: int, fields: list):
    """Objects an application may hand to the encoder by mistake: the first `shape` attributes of a message (0-5), None (6), a str (7)."""
    import types

    if shape == 6:
        return None
    if shape == 7:
        return "7;255;3;0;9;text"
    names = ("node_id", "child_id", "command", "ack", "message_type", "payload")
    return types.SimpleNamespace(**dict(zip(names[:shape], fields[:shape])))


def _nontrivial(msg: list) -> bool:
    node, child, command, _ack, mtype, payload = msg
    return (
        ";" in payload
        or node in (99, 100, 254, 255)
        or child in (99, 100, 254)
        or (command == 3 and mtype in (3, 4) and child != 255)
        or abs(mtype) >= 2**31
    )


def _classes(msg: list) -> tuple[str, ...]:
    out = [f"cmd={msg[2]}"]
    if ";" in msg[5]:
        out.append("payload-has-delimiter")
    if msg[5] == "":
        out.append("payload-empty")
    if abs(msg[4]) >= 2**31:
        out.append("type-huge")
    if msg[2] == 3 and msg[4] in (3, 4) and msg[1] != 255:
        out.append("idreq-exception")
    return tuple(out)


def run_case(case: dict) -> Outcome:
    with env.debug_logging(bool(case.get("debug_log"))):
        return _run_case(case)


def _run_case(case: dict) -> Outcome:
    version, msg, ending = case["version"], case["msg"], case["ending"]
    node, child, command, ack, mtype, payload = msg
    nontrivial = _nontrivial(msg)
    classes = _classes(msg)
    pclass = "delim" if ";" in payload else "plain"
    ctx = case.get("ctx")

    def build_schema() -> MessageSchema:
        made = MessageSchema()
        made.set_protocol(get_protocol(version))
        return made

    if case.get("bystander_config"):
        _differently_configured_bystanders()
    schema = env.in_ctx(ctx, build_schema)  # built in one task/thread, used in another
    if ctx not in (None, "same"):
        classes += (f"ctx={ctx}",)
    if case.get("warm_mut"):
        classes += ("warm-lookalike",)
    for warm in list(case.get("warmup", ())) + warm_lines(msg, case.get("warm_mut", ())):
        # a long-lived schema (the gateway keeps one for its whole life) must not remember what it decoded
        try:
            schema.load(warm)
        except Exception:  # noqa: BLE001
            pass
    expected_line = ref_format(node, child, command, ack, mtype, payload)
    for shape in case.get("bad_dumps", ()):
        # an encode that is refused (an object lacking some of the six attributes, or not a message at all) leaves nothing behind
        try:
            schema.dump(_incomplete_message(shape, [7, 255, 3, 0, 9, "left;over"]))
        except Exception:  # noqa: BLE001 - how the refusal is reported is not this property's business
            pass
    if case.get("bad_dumps"):
        classes += ("after-refused-dump",)
    for other in case.get("pre_dumps", ()):
        # the schema has encoded other messages before (it lives as long as the gateway does)
        try:
            other_line = schema.dump(Message(*other))
        except Exception as err:  # noqa: BLE001
            return fail(f"dump-raises:{type(err).__name__}", f"dump({other}) raised {err!r}", classes=classes)
        if other_line != ref_format(*other):
            return fail("dump-format:earlier-message", f"dump({other}) = {other_line!r}", classes=classes)
    if case.get("pre_dumps"):
        classes += ("after-other-dumps",)

    # (A) encode == reference formatter; decode(encode(m)) == m
    try:
        dumped = schema.dump(Message(node, child, command, ack, mtype, payload))
    except Exception as err:  # noqa: BLE001
        return fail(f"dump-raises:{type(err).__name__}", f"dump({msg}) raised {err!r}", classes=classes)
    if dumped != expected_line:
        return fail(f"dump-format:{pclass}", f"dump({msg}) = {dumped!r}, expected {expected_line!r}", classes=classes)
    try:
        loaded = schema.load(dumped)
    except (ValidationError, Exception) as err:  # noqa: BLE001
        return fail(
            f"load-of-dump-raises:{type(err).__name__}:cmd={command}",
            f"load({dumped!r}) raised {err!r} under {version}",
            classes=classes,
        )
    if not env.exact_fields(loaded, msg):
        return fail(
            f"roundtrip-fields:{pclass}",
            f"load(dump({msg})) = {env.msg_fields(loaded)} under {version}",
            classes=classes,
        )
    # the decoded message belongs to the caller: changing it must not change what the next decode returns
    loaded.payload, loaded.ack, loaded.message_type = "changed-by-caller", 1 - ack, mtype + 1
    try:
        second = schema.load(dumped)
    except Exception as err:  # noqa: BLE001
        return fail(f"second-load-raises:{type(err).__name__}", f"second load({dumped!r}) raised {err!r}", classes=classes)
    if not env.exact_fields(second, msg):
        return fail("second-decode-aliases-first", f"second load({dumped!r}) = {env.msg_fields(second)} after the caller modified the first result", classes=classes)

    # a decoded message edited by the application (answering an echo, changing a value) encodes to what it says NOW
    import copy as _copy

    for how in ("edit", "copy-edit"):
        try:
            decoded = schema.load(dumped)
            if how == "copy-edit":
                decoded = _copy.copy(decoded)
            decoded.ack = 1 - ack
            decoded.payload = payload + ";edited"
            redumped = schema.dump(decoded)
        except Exception as err:  # noqa: BLE001
            return fail(f"dump-of-edited-raises:{type(err).__name__}", f"dump of an edited decoded message raised {err!r}", classes=classes)
        want_edit = ref_format(node, child, command, 1 - ack, mtype, payload + ";edited")
        if redumped != want_edit:
            return fail(f"dump-of-edited-decoded-message:{how}", f"load({dumped!r}), then ack={1 - ack} and payload+=';edited', dumps as {redumped!r}, expected {want_edit!r}", classes=classes)

    # the same schema encodes other messages with the same header (kept alive side by side), and the same object again after an edit
    sibling = Message(node, child, command, ack, mtype, payload + ";sibling")
    try:
        sibling_line = schema.dump(sibling)
        own_again = schema.dump(Message(node, child, command, ack, mtype, payload))
        sibling.payload = payload + ";changed"
        sibling_changed = schema.dump(sibling)
    except Exception as err:  # noqa: BLE001
        return fail(f"dump-raises:{type(err).__name__}", f"dumping messages with the same header raised {err!r}", classes=classes)
    for got_line, want_payload in ((sibling_line, payload + ";sibling"), (own_again, payload), (sibling_changed, payload + ";changed")):
        if got_line != ref_format(node, child, command, ack, mtype, want_payload):
            return fail("dump-reuses-another-messages-line", f"one schema, messages with header {msg[:5]} and different payloads: a message with payload {want_payload!r} was encoded as {got_line!r}", classes=classes)

    # (B) decode(line) re-encodes to the line up to trailing whitespace
    line = expected_line[:-1] + ending
    try:
        again = schema.dump(schema.load(line))
    except Exception as err:  # noqa: BLE001
        return fail(f"reencode-raises:{type(err).__name__}", f"dump(load({line!r})) raised {err!r}", classes=classes)
    if again != line.rstrip() + "\n":
        return fail(f"reencode:{pclass}", f"dump(load({line!r})) = {again!r}", classes=classes)

    # (C) the same through the gateway
    async def through_gateway() -> Outcome | None:
        gateway, transport = env.make_gateway(version, ctx=ctx)
        for warm in warm_lines(msg, case.get("warm_mut", ())):
            await env.rx(gateway, warm)
        transport.writes.clear()
        if command == 1:
            status, err = await env.send(gateway, Message(node, child, command, ack, mtype, payload))
            if status != "ok":
                return fail(f"gateway-send-raises:{type(err).__name__}", f"send({msg}) raised {err!r}", classes=classes)
            written = [w for _, w in transport.writes]
            if written != [expected_line]:
                return fail(f"gateway-send:{pclass}", f"send({msg}) wrote {written!r}", classes=classes)
            transport.writes.clear()
        deliver = None
        if command == 1:
            env.install_registry(gateway.nodes, {str(node): {"children": {str(child): {"child_type": 0}}}})
            deliver = expected_line
        elif command == 0 and child == 255 and node != 0:
            deliver = expected_line
        elif command == 3 and mtype == 9 and child == 255:
            deliver = expected_line
        if deliver is not None:
            status, got = await env.rx(gateway, deliver)
            if status != "ok":
                return fail(
                    f"gateway-rx-raises:{type(got).__name__}",
                    f"listen on {deliver!r} under {version}: {got!r}",
                    classes=classes,
                )
            if not env.exact_fields(got, msg):
                return fail(
                    f"gateway-rx-fields:{pclass}",
                    f"listen on {deliver!r} yielded {env.msg_fields(got)}",
                    classes=classes,
                )
        return None

    bad = asyncio.run(through_gateway())
    if bad is not None:
        return bad
    return Outcome(ok=True, nontrivial=nontrivial, classes=classes)
