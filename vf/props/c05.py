"""C05 - active protocol = newest supported one not newer than the reported version (DESIGN 4.5)."""

from __future__ import annotations

import asyncio
import os

from hypothesis import strategies as st

from aiomysensors.model.protocol import get_protocol

from vf import drive, env
from vf.codec_ref import INTERNAL_MAX, STREAM_MAX, VERSIONS, ref_protocol
from vf.drive import classify
from vf.runner import Outcome, fail

ID = "C05"
LEVEL = "exploration"
DESIGN_REF = "4.5"
RULE = (
    "three case kinds. map: a release string M.m[.p[.b]] (enumerated grid M in {0,1,2,3,10}, m in {0..6,9,10,15}, p,b in {absent,0,1,2,10} "
    "plus generated integers) compared with an integer-pair reference through get_protocol and through a live gateway fed a version reply "
    "or a gateway presentation. hist: version unknown at start, history of version replies / gateway presentations (release strings and "
    "rejectable texts) mixed with other traffic; after every step reported version and active rules must agree (None => 1.4; release string => "
    "reference), a rejected report may not be stored, and the rules in force are probed behaviourally at the end with edge type numbers and "
    "with a message from an unknown node (2.x asks it to present itself, 1.x does not); histories run on a fresh listen() per line or on one long-lived listen() generator. "
    "gate: per version (pinned or learned from a x.y.z reply) every internal type -3..40 and stream type -2..8 plus huge ints on a fresh "
    "gateway: UnsupportedMessageError iff outside the spec table spelled in the harness. Non-trivial = 3/4-component version, or history "
    "with >=2 different reports or a rejected report after an accepted one, or a gate probe within 1 of a table edge."
    ' Round 5: a `probe` op asks the same gateway about the same types repeatedly while its version changes (enumerated for all version pairs).'
    ' Round 6: cases also run with the library at DEBUG (memoised version resolutions forgotten first); `read_error` events (version and rules must survive a failed read).'
    ' Round 7: node-0 traffic for unknown children (the gateway node owes a presentation) before a new report.'
    ' Round 8: probes check handler effects per protocol (discover broadcast, which message marks a node sleeping); `tasks`.'
    ' Round 9: `persist` (scratch or unwritable registry file); version-looking text in every non-report message.'
    ' Round 10: `send` events (version request, commands) may not move the version; `warnings=error` (library warnings promoted to exceptions).'
    " Round 11: `via` (reports through the library's MQTT / stream transport), `probe_sender` (0, 255, unknown, 254); environment sweep judged on the version query."
    ' Round 12: `backlog` op; `session` ops that leave with an error; hidden-switch sweep; pass under `python -O`.'
    ' Round 13: `rx_cancel k`, `two_listeners`.'
)
ASSUMPTIONS = [
    "spec tables: internal 0-14 (1.4), 0-17 (1.5), 0-28 (2.0, 2.1), 0-33 (2.2); stream 0-5",
    "a non-release text that the implementation happens to accept (e.g. 'v2.2') is a don't-care for the mapping",
]
DELETABLE = ("ops",)

GRID_M = (0, 1, 2, 3, 10)
GRID_m = (0, 1, 2, 3, 4, 5, 6, 9, 10, 15)
GRID_p = (None, 0, 1, 2, 10)
REJECTABLE = ("", "garbage", "2.2-beta", "x.y", "2..2", "beta", "2.x")


def budgets(tier: str) -> dict:
    if tier == "quick":
        return {"examples": 1600, "shards": 4, "enum_shards": 4}
    return {"examples": 60000, "shards": 16, "enum_shards": 16}


def _grid():
    for major in GRID_M:
        for minor in GRID_m:
            for patch in GRID_p:
                for build in GRID_p:
                    if patch is None and build is not None:
                        continue
                    text = f"{major}.{minor}"
                    if patch is not None:
                        text += f".{patch}"
                    if build is not None:
                        text += f".{build}"
                    yield text


def opt_cases(tier: str):
    """Cases also executed by an interpreter started with -O (see vf/optpass.py)."""
    return drive.opt_sweep_cases(tier)


def enumerate_cases(tier: str):
    # one event of every kind under every environment dimension (transport kind, logging, warnings, a bystander gateway, registry file, ...)
    yield from drive.all_sweep_cases()
    for stored in ("2.2.0", "2.3.2", "2.0", "1.5.1", "1.4", "", "garbage"):
        for report in ("2.2.0", "1.5", "2.1.1"):
            yield {"kind": "persisted", "stored": stored, "report": report}
    for text in _grid():
        for via in ("get_protocol", "reply", "presentation"):
            yield {"kind": "map", "text": text, "via": via}
    for version in VERSIONS:
        for how in ("pinned", "learned"):
            for ack in (0, 1):
                for mtype in list(range(-3, 41)) + [2**31, 10**30, -(10**12)]:
                    yield {"kind": "gate", "version": version, "how": how, "cmd": 3, "type": mtype, "ack": ack}
                for mtype in list(range(-2, 9)) + [2**31, -(10**12)]:
                    yield {"kind": "gate", "version": version, "how": how, "cmd": 4, "type": mtype, "ack": ack}


    # the same with the library logging at DEBUG (what the CLI does), strings no other case resolves
    for idx, base in enumerate(("1.4", "1.5", "2.0", "2.1", "2.2", "2.3", "1.0", "3.1")):
        for via in ("get_protocol", "reply", "presentation"):
            yield {"kind": "map", "text": f"{base}.{700 + idx}", "via": via, "debug_log": True}
        yield {"kind": "hist", "listen_mode": "persistent", "debug_log": True, "ops": [["rx", f"0;255;3;0;2;{base}.{800 + idx}\n"], ["probe", "edge"]]}
    # a failed read of the transport between a report and the next message: the version stays reported, the rules stay in force
    for report in ("1.5.1", "2.0.0", "2.2.0"):
        for kind in ("read", "failed", "base"):
            for mode in ("fresh", "persistent"):
                yield {"kind": "hist", "listen_mode": mode, "ops": [["rx", f"0;255;3;0;2;{report}\n"], ["read_error", kind], ["probe", "edge"], ["read_error", kind], ["rx", "0;255;3;0;9;log\n"]]}
    # version-looking text in every message that is NOT a version report: the active protocol does not move
    for report in (None, "1.5.1", "2.0.0"):
        lines = [f"0;255;3;0;{t};{text}\n" for t in range(0, 34) if t != 2 for text in ("2.2.0", "VER=2.3.2", "192.168.1.20")]
        lines += [f"3;255;3;0;{t};2.2.0\n" for t in range(0, 34) if t != 2] + ["3;255;0;0;17;2.2.0\n", "3;255;0;0;18;2.1.1\n", "3;1;0;0;6;2.2.0\n", "3;1;1;0;47;2.2.0\n", "3;255;4;0;0;2.2.0\n"]
        ops = ([] if report is None else [["rx", f"0;255;3;0;2;{report}\n"]]) + [["rx", l] for l in lines] + [["probe", "edge"]]
        for mode in ("fresh", "persistent"):
            yield {"kind": "hist", "listen_mode": mode, "ops": ops}
    # a persistence file that cannot be written (read-only or full disk) while reports arrive in both forms
    for persist in ("unwritable", "tmp"):
        for form in ("0;255;0;0;18;{}\n", "0;255;3;0;2;{}\n", "0;255;0;1;18;{}\n"):
            ops = [["rx", form.format("2.2.0")], ["probe", "edge"], ["rx", "3;255;0;0;17;2.1.0\n"], ["rx", form.format("1.5.1")], ["probe", "edge"], ["rx", form.format("2.0.0")], ["probe", "edge"]]
            yield {"kind": "hist", "listen_mode": "persistent", "ops": ops, "persist": persist}
    # the gateway node itself is asked to present again (it sent something for an unknown child), then reports a new release
    for first in ("1.5.1", "2.0.0", "2.1.1", "2.2.0"):
        for then in ("1.4", "2.0.0", "2.2.0", "2.3.2"):
            if first == then:
                continue
            for form_a in ("0;255;0;0;18;{}\n", "0;255;3;0;2;{}\n"):
                for form_b in ("0;255;0;0;18;{}\n", "0;255;0;1;18;{}\n", "0;255;3;0;2;{}\n"):
                    ops = [["rx", form_a.format(first)], ["rx", "0;255;0;0;18;" + first + "\n"], ["rx", "0;7;1;0;0;1\n"], ["rx", "0;7;2;0;0;\n"], ["rx", form_b.format(then)], ["probe", "edge"]]
                    yield {"kind": "hist", "listen_mode": "persistent" if len(then) % 2 else "fresh", "ops": ops}
    # the process treats warnings as errors (python -W error, pytest filterwarnings=error): releases that are not exactly a supported protocol
    for text in ("2.3.2", "1.9.0", "3.0.0", "2.2.5", "1.4.9", "2.0.1", "10.0", "1.5.7", "2.1.9", "0.9"):
        for via in ("get_protocol", "reply", "presentation"):
            yield {"kind": "map", "text": text, "via": via, "warnings": "error"}
        yield {"kind": "hist", "listen_mode": "persistent", "warnings": "error", "ops": [["rx", "0;255;3;0;2;2.2.0\n"], ["rx", f"0;255;3;0;2;{text}\n"], ["probe", "edge"], ["rx", f"0;255;0;0;18;{text}\n"], ["probe", "edge"]]}
    # the application itself asks the gateway for its version (and sends other things to node 0): what was reported stays reported
    for report in ("1.5.4", "2.1.1", "2.2.0"):
        for mode in ("fresh", "persistent"):
            ops = [["rx", f"0;255;3;0;2;{report}\n"], ["send", [0, 255, 3, 0, 2, ""]], ["probe", "edge"], ["send", [0, 255, 3, 1, 2, ""]], ["send", [0, 255, 3, 0, 18, ""]], ["send", [0, 255, 3, 0, 13, ""]],
                   ["send", [1, 255, 3, 0, 2, ""]], ["probe", "edge"]]
            yield {"kind": "hist", "listen_mode": mode, "ops": ops}
    # the same reports through each kind of transport (the library's MQTT and stream transports carrying the lines), repeated and alternating,
    # in both forms; and probes sent by the gateway, by a node that has no id yet (255) and by an unknown node
    for via in ("mqtt", "stream"):
        for a, b in (("2.2.0", "1.5.1"), ("1.4", "2.1.1"), ("2.0.0", "2.2.0")):
            for mode in ("fresh", "persistent"):
                ops = [["rx", f"0;255;0;0;18;{a}\n"], ["probe", "edge"], ["rx", f"0;255;3;0;2;{b}\n"], ["probe", "edge"], ["rx", f"0;255;0;0;18;{a}\n"], ["probe", "edge"],
                       ["rx", f"0;255;3;0;2;{b}\n"], ["rx", f"0;255;3;0;2;{b}\n"], ["probe", "edge"], ["rx", f"0;255;3;0;2;{a}\n"], ["rx", f"0;255;3;0;2;{b}\n"], ["rx", f"0;255;3;0;2;{a}\n"], ["probe", "edge"]]
                yield {"kind": "hist", "listen_mode": mode, "ops": ops, "via": via}
    # the listening task is cancelled right after the report arrived; a second listener is already waiting when the report arrives
    for report in ("1.5.1", "2.0.0", "2.2.0"):
        for form in ("0;255;3;0;2;{}\n", "0;255;0;0;18;{}\n"):
            for k in (0, 1, 2, 3, 5):
                yield {"kind": "hist", "listen_mode": "fresh", "ops": [["rx_cancel", form.format(report), k], ["probe", "edge"], ["rx", form.format("2.1.1")], ["rx_cancel", form.format(report), k], ["probe", "edge"]]}
        for first in (None, "1.4", "2.1.1"):
            ops = ([] if first is None else [["rx", f"0;255;3;0;2;{first}\n"]]) + [["two_listeners", f"0;255;3;0;2;{report}\n", "0;255;3;0;14;Gateway startup complete.\n"], ["probe", "edge"]]
            yield {"kind": "hist", "listen_mode": "fresh", "ops": ops}
    # the way the previous session ended; a report that arrives behind a long backlog
    for report in ("1.5.1", "2.1.1", "2.2.0"):
        for how in ("transport", "failed", "runtime", "cancelled"):
            for via in (None, "mqtt"):
                ops = [["session"], ["rx", f"0;255;3;0;2;{report}\n"], ["probe", "edge"], ["session", how], ["probe", "edge"], ["rx", "0;255;3;0;9;log\n"], ["session", how], ["session"], ["probe", "edge"]]
                yield {"kind": "hist", "listen_mode": "fresh", "ops": ops, "via": via}
    for via in (None, "mqtt", "stream"):
        for count in (10, 999, 1000, 1001, 5000):
            ops = [["rx", "0;255;3;0;2;1.5.0\n"], ["backlog", count, "0;255;3;0;2;2.2.0\n"], ["probe", "edge"], ["backlog", count, "0;255;0;0;18;2.0.0\n"], ["probe", "edge"]]
            yield {"kind": "hist", "listen_mode": "fresh", "ops": ops, "via": via}
    for sender in (0, 255, 78, 254):
        for report in (None, "1.5.1", "2.0.0", "2.2.0"):
            ops = ([] if report is None else [["rx", f"0;255;3;0;2;{report}\n"]]) + [["probe", "all"]]
            yield {"kind": "hist", "listen_mode": "persistent", "ops": ops, "probe_sender": sender}
    # one gateway object, every type probed under version A, then again after the gateway reported version B
    reports = (None, "1.4", "1.5.1", "2.0.0", "2.1.1", "2.2.0", "2.3.2")
    for first in reports:
        for then in reports[1:]:
            for mode in ("fresh", "persistent"):
                ops = ([] if first is None else [["rx", f"0;255;3;0;2;{first}\n"]]) + [["probe", "all"], ["rx", f"0;255;3;0;2;{then}\n"], ["probe", "all"]]
                yield {"kind": "hist", "listen_mode": mode, "ops": ops}
                yield {"kind": "hist", "listen_mode": mode, "ops": ops, "tasks": True}


_component = st.one_of(st.integers(0, 12), st.integers(0, 12), st.integers(0, 10**6))
release_text = st.lists(_component, min_size=2, max_size=4).map(lambda parts: ".".join(str(p) for p in parts))
common_release = st.sampled_from(("1.4", "1.5", "2.0", "2.1", "2.2", "2.2.0", "2.3.2", "2.1.1", "2.0.0", "1.5.0", "1.4.1", "1.0", "3.0.0", "2.3.2.1"))


def _hist_ops():
    report_text = st.one_of(common_release, common_release, release_text, st.sampled_from(REJECTABLE))
    return st.lists(
        st.one_of(
            report_text.map(lambda s: ["rx", f"0;255;3;0;2;{s}\n"]),
            report_text.map(lambda s: ["rx", f"0;255;3;1;2;{s}\n"]),
            report_text.map(lambda s: ["rx", f"0;255;0;0;18;{s}\n"]),
            st.sampled_from(
                (
                    ["rx", "1;255;0;0;17;2.0\n"],
                    ["rx", "1;1;0;0;6;\n"],
                    ["rx", "1;1;1;0;0;20\n"],
                    ["rx", "0;255;3;0;9;log\n"],
                    ["rx", "0;255;3;0;9;IP: 192.168.1.20\n"],
                    ["rx", "0;255;3;0;9;MCO:BGN:INIT GW,CP=RNNGA---,VER=2.3.2\n"],
                    ["rx", "0;255;3;0;9;TSF:MSG:READ,2-2-0,s=255,c=3,t=11,pt=0,l=5,sg=0:2.1.1\n"],
                    ["rx", "3;255;3;0;9;1.5.0\n"],
                    ["rx", "0;255;3;0;14;Gateway startup complete. 2.2.0\n"],
                    ["rx", "3;255;3;0;11;Sketch 2.0.0\n"],
                    ["rx", "3;255;3;0;12;2.1.1\n"],
                    ["rx", "0;255;3;0;14;Gateway startup complete.\n"],
                    ["rx", "1;255;3;0;22;5\n"],
                    ["rx", "junk\n"],
                    ["rx", "0;7;1;0;0;1\n"],
                    ["rx", "0;7;2;1;0;\n"],
                    ["rx", "0;255;3;0;0;55\n"],
                    ["session"],
                    ["session"],
                    ["probe", "edge"],
                    ["probe", "edge"],
                    ["probe", "all"],
                    ["read_error", "read"],
                    ["read_error", "failed"],
                    ["read_error", "base"],
                    ["send", [0, 255, 3, 0, 2, ""]],
                    ["send", [0, 255, 3, 0, 18, ""]],
                    ["bystander", "2.2.0"],
                    ["bystander", "1.5.4"],
                    ["bystander", ""],
                )
            ),
        ),
        min_size=1,
        max_size=10,
    )


def strategy(tier: str):
    return st.one_of(
        st.fixed_dictionaries({"kind": st.just("hist"), "via": st.sampled_from((None, None, "mqtt", "stream")), "probe_sender": st.sampled_from((1, 1, 0, 255, 78)), "listen_mode": st.sampled_from(("fresh", "persistent")), "ops": _hist_ops(), "debug_log": st.sampled_from((False, False, True)),
                               "tasks": st.sampled_from((False, False, True)), "persist": st.sampled_from((None, None, "tmp", "unwritable")), "warnings": st.sampled_from((None, None, "error"))}),
        st.fixed_dictionaries({"kind": st.just("hist"), "via": st.sampled_from((None, None, "mqtt", "stream")), "probe_sender": st.sampled_from((1, 1, 0, 255, 78)), "listen_mode": st.sampled_from(("fresh", "persistent")), "ops": _hist_ops(), "debug_log": st.sampled_from((False, False, True)),
                               "tasks": st.sampled_from((False, False, True)), "persist": st.sampled_from((None, None, "tmp", "unwritable")), "warnings": st.sampled_from((None, None, "error"))}),
        st.fixed_dictionaries(
            {"kind": st.just("map"), "text": st.one_of(release_text, common_release), "via": st.sampled_from(("get_protocol", "reply", "presentation")),
             "debug_log": st.sampled_from((False, False, True)), "warnings": st.sampled_from((None, None, "error"))}
        ),
    )


ALL_PROBES = tuple((3, t) for t in range(-1, 37) if t != 2) + tuple((4, t) for t in range(-1, 8))
PROBES = ((3, 14), (3, 15), (3, 17), (3, 18), (3, 28), (3, 29), (3, 33), (3, 34), (4, 5), (4, 6))


def _supported(rules: str, cmd: int, mtype: int) -> bool:
    top = INTERNAL_MAX[rules] if cmd == 3 else STREAM_MAX[rules]
    return 0 <= mtype <= top


def _shape(text: str) -> str:
    parts = text.split(".")
    tail = "dot0" if len(parts) > 2 and parts[-1] == "0" else "plain"
    return f"{len(parts)}parts-{tail}"


async def _probe(version_setup, cmd: int, mtype: int, payload: str, ack: int = 0) -> tuple[str, object, object]:
    gateway, _t = env.make_gateway(None)
    await version_setup(gateway)
    env.install_registry(gateway.nodes, {"1": {}})
    status, value = await env.rx(gateway, f"1;255;{cmd};{ack};{mtype};{payload}\n")
    return classify(status, value), value, gateway


def _run_map(case: dict) -> Outcome:
    text, via = case["text"], case["via"]
    want = ref_protocol(text)
    if want is None:
        raise ValueError("map case needs a release string")
    nontrivial = len(text.split(".")) >= 3
    classes = (f"map:{via}", _shape(text), f"want={want}")
    if via == "get_protocol":
        try:
            got = get_protocol(text).VERSION
        except Exception as err:  # noqa: BLE001
            return fail(f"mapping-raises:{type(err).__name__}:{_shape(text)}", f"get_protocol({text!r}) raised {err!r}", classes=classes)
        if got != want:
            return fail(f"mapping:{_shape(text)}", f"get_protocol({text!r}).VERSION = {got}, newest supported <= reported is {want}", classes=classes)
        return Outcome(ok=True, nontrivial=nontrivial, classes=classes)

    async def live():
        gateway, _t = env.make_gateway(None)
        line = f"0;255;3;0;2;{text}\n" if via == "reply" else f"0;255;0;0;18;{text}\n"
        status, value = await env.rx(gateway, line)
        return status, value, gateway.protocol_version, gateway.protocol.VERSION

    status, value, reported, rules = env.run(live())
    if status != "ok":
        return fail(f"report-raises:{type(value).__name__}:{_shape(text)}", f"version report {text!r} via {via}: {value!r}", classes=classes)
    if reported != text or rules != want:
        return fail(f"mapping-live:{_shape(text)}", f"after report {text!r} via {via}: protocol_version={reported!r}, rules={rules}, want {want}", classes=classes)
    return Outcome(ok=True, nontrivial=nontrivial, classes=classes)


def _run_gate(case: dict) -> Outcome:
    version, how, cmd, mtype = case["version"], case["how"], case["cmd"], case["type"]
    top = INTERNAL_MAX[version] if cmd == 3 else STREAM_MAX[version]
    nontrivial = abs(mtype - top) <= 1 or mtype in (-1, 0)
    classes = (f"gate:{how}:cmd={cmd}", f"rules={version}")

    async def setup(gateway):
        if how == "pinned":
            gateway.protocol_version = version
        else:
            await env.rx(gateway, f"0;255;3;{case.get('ack', 0)};2;{version}.1\n")

    payload = version if (cmd == 3 and mtype == 2) else "1"
    outcome, value, _gw = env.run(_probe(setup, cmd, mtype, payload, case.get("ack", 0)))
    want_supported = _supported(version, cmd, mtype)
    name = "internal" if cmd == 3 else "stream"
    if want_supported and outcome != "ok":
        return fail(f"gate:{name}:refuses-existing-type:{version}", f"{name} type {mtype} exists in {version} ({how}) but gave {outcome}: {value!r}", classes=classes)
    if not want_supported and outcome != "unsupported":
        return fail(f"gate:{name}:accepts-missing-type:{version}", f"{name} type {mtype} does not exist in {version} ({how}) but gave {outcome}: {value!r}", classes=classes)
    return Outcome(ok=True, nontrivial=nontrivial, classes=classes)


def _report_text(line: str | None) -> str | None:
    if not isinstance(line, str):
        return None
    return _report_text_of(line)


def _report_text_of(line: str) -> str | None:
    if line.startswith(("0;255;3;0;2;", "0;255;3;1;2;", "0;255;0;0;18;", "0;255;0;1;18;")):
        return line.rstrip("\n").split(";", 5)[5]
    return None


def _run_hist(case: dict) -> Outcome:
    ops = case["ops"]
    ops = [op if len(op) > 1 and op[0] in ("rx", "probe", "read_error", "send") else [op[0], None] + list(op[1:]) for op in ops]
    ops = [op if op[0] != "bystander" else ["bystander", op[2] if len(op) > 2 else ""] for op in ops]
    reports = [_report_text(op[1]) for op in ops if _report_text(op[1]) is not None]
    release_reports = [r for r in reports if ref_protocol(r) is not None]
    rejected_after_accepted = any(
        ref_protocol(r) is None and any(ref_protocol(p) is not None for p in reports[:i]) for i, r in enumerate(reports)
    )
    nontrivial = len(set(release_reports)) >= 2 or rejected_after_accepted
    stats = {"rejected": 0, "accepted": 0}

    async def go() -> Outcome | None:
        # "persist": a persistence file is configured - writable (scratch) or at a location that cannot be written (full or read-only disk)
        persist = case.get("persist")
        scratch_dir = None
        if persist == "tmp":
            import tempfile

            scratch_dir = tempfile.mkdtemp(prefix="vfc05-", dir="/dev/shm" if os.path.isdir("/dev/shm") else None)
            stats["tmpdir"] = scratch_dir
        gateway, _t = env.make_gateway(None, persistence_file={"tmp": os.path.join(scratch_dir or "", "registry.json"), "unwritable": "unwritable"}.get(persist), via=case.get("via"))
        listener = env.Listener(gateway) if case.get("listen_mode") == "persistent" else None

        async def deliver(line: str):
            coro = listener.next(line) if listener else env.rx(gateway, line)
            if case.get("tasks"):
                # every message is handled in a task of its own (what a supervisor restarting its listen task amounts to):
                # nothing the handlers keep may live in the handling task's context
                return await asyncio.ensure_future(coro)
            return await coro

        async def probe_rules(where: str, probes) -> Outcome | None:
            reported = gateway.protocol_version
            want = "1.4" if reported is None else ref_protocol(reported)
            if want is None:
                return None
            if 1 not in gateway.nodes:
                env.install_registry(gateway.nodes, {"1": {}})
            # ... and the HANDLERS in force, by their effects: gateway-ready is answered with a discover broadcast under 2.x only;
            # a heartbeat response marks the node sleeping under 2.0/2.1, the pre-sleep notification does under 2.2
            for line, effect in (("0;255;3;0;14;Gateway startup complete.\n", "discover"), ("1;255;3;0;22;5\n", "hb-sleeps"), ("1;255;3;0;32;500\n", "presleep-sleeps")):
                gateway.nodes[1].sleeping = False
                before_writes = len(_t.writes)
                await deliver(line)
                if effect == "discover":
                    got_effect = any(w.split(";")[2:5] == ["3", "0", "20"] for _s, w in _t.writes[before_writes:])
                    want_effect = want.startswith("2")
                else:
                    got_effect = bool(gateway.nodes[1].sleeping) if 1 in gateway.nodes else False
                    want_effect = want in ("2.0", "2.1") if effect == "hb-sleeps" else want == "2.2"
                if got_effect != want_effect:
                    return fail(f"handlers-in-force:{effect}:{want}", f"{where}, version {reported!r} (rules {want}): {line!r} {'had' if got_effect else 'did not have'} the effect '{effect}'")
            gateway.nodes[1].sleeping = False
            sender = case.get("probe_sender", 1)  # who sends the probes: a known node, the gateway, a node that has no id yet, an unknown node
            for pidx, (cmd, mtype) in enumerate(probes):
                status, value = await deliver(f"{sender};255;{cmd};{pidx % 2};{mtype};1\n")
                outcome = classify(status, value)
                if _supported(want, cmd, mtype) and outcome == "unsupported":
                    return fail(f"rules-in-force:refuses:{want}", f"{where}, version {reported!r}: type {cmd}/{mtype} exists in {want} but is refused")
                if not _supported(want, cmd, mtype) and outcome == "missing_node" and sender != 1:
                    continue  # (a sender the registry does not hold may be turned away for that before the type is looked at)
                if not _supported(want, cmd, mtype) and outcome != "unsupported":
                    return fail(f"rules-in-force:accepts:{want}", f"{where}, version {reported!r}: type {cmd}/{mtype} not in {want} but gave {outcome}")
            return None

        in_session = False
        bystanders: list = []
        for idx, op in enumerate(ops):
            before = gateway.protocol_version
            if op[0] == "send":
                # the application sends something (e.g. its own version request): the reported version and the rules stay as they are
                await env.send(gateway, env.mk_message(op[1]))
                if gateway.protocol_version != before:
                    return fail("version-changed-by-send", f"step {idx}: sending {op[1]!r} changed protocol_version {before!r} -> {gateway.protocol_version!r} (rules {gateway.protocol.VERSION})")
                continue
            if op[0] == "read_error":
                # the transport's read fails (line noise, a dropped link): nothing was reported, so nothing may change
                status, value = await deliver(env.read_error(op[1]))
                stats["read_errors"] = stats.get("read_errors", 0) + 1
                if gateway.protocol_version != before:
                    return fail("version-changed-by-read-error", f"step {idx}: a failed read changed protocol_version {before!r} -> {gateway.protocol_version!r} (rules {gateway.protocol.VERSION})")
                want_rules = "1.4" if before is None else ref_protocol(before)
                if want_rules is not None and gateway.protocol.VERSION != want_rules:
                    return fail("rules-changed-by-read-error", f"step {idx}: after a failed read the rules are {gateway.protocol.VERSION}, reported version {before!r}")
                continue
            if op[0] == "probe":
                # the same gateway object is asked about the same types again and again while its version changes
                stats["probes"] = stats.get("probes", 0) + 1
                bad = await probe_rules(f"step {idx} probe", ALL_PROBES if op[1] == "all" else PROBES)
                if bad is not None:
                    return bad
                continue
            if op[0] == "bystander":
                # another gateway object in the same process (say serial + MQTT in one controller) lives its own life
                other, _ot = env.make_gateway(None)
                bystanders.append(other)
                if op[1]:
                    await env.rx(other, f"0;255;3;0;2;{op[1]}\n")
                op = ["rx", "0;255;3;0;9;bystander created\n"]
            if op[0] == "session" and persist == "unwritable":
                op = ["rx", "0;255;3;0;9;(no session: the persistence file cannot even be created)\n"]
            if op[0] == "session":
                # the application leaves the gateway context and enters it again (reconnect on the same object)
                if listener is not None:
                    await listener.close()
                if in_session:
                    how = op[2] if len(op) > 2 else None
                    if how:
                        # the session ends because an error leaves the `async with` block (a lost link, a bug in the application's loop)
                        from aiomysensors.exceptions import TransportError as _TE, TransportFailedError as _TFE

                        err = {"transport": _TE("link lost"), "failed": _TFE("link lost"), "runtime": RuntimeError("application bug"), "cancelled": asyncio.CancelledError()}[how]
                        await gateway.__aexit__(type(err), err, None)
                    else:
                        await gateway.__aexit__(None, None, None)
                await gateway.__aenter__()
                in_session = True
                op = ["rx", "0;255;3;0;9;session restarted\n"]
            if op[0] == "rx_cancel":
                # the task that listens is cancelled k loop iterations after the report arrived (shutdown, a timeout around the wait):
                # a report that was taken off the transport is a report that was received
                line, k = op[2], int(op[3])
                if listener is not None:
                    await listener.close()
                _t.inbox.append(line)
                agen = gateway.listen()
                task = asyncio.ensure_future(agen.__anext__())
                for _ in range(k):
                    await asyncio.sleep(0)
                task.cancel()
                cancelled = False
                try:
                    await task
                except asyncio.CancelledError:
                    cancelled = True
                except Exception:  # noqa: BLE001
                    pass
                consumed = line not in _t.inbox
                _t.inbox.clear()
                try:
                    await agen.aclose()
                except Exception:  # noqa: BLE001
                    pass
                text = _report_text(line)
                if cancelled and consumed and text is not None and ref_protocol(text) is not None and gateway.protocol_version != text:
                    return fail("report-consumed-then-dropped", f"step {idx}: {line!r} was taken off the transport, the listening task was cancelled {k} loop iterations later, and protocol_version is {gateway.protocol_version!r}")
                continue
            if op[0] == "two_listeners":
                # a second task is already waiting in listen() (for the next line) when the first one receives the report;
                # what the second one handles afterwards is handled under the reported version
                report, then = op[2], op[3]
                if listener is not None:
                    await listener.close()
                if not isinstance(_t, env.RecordingTransport):
                    continue
                _t.wait_when_empty = True
                first, second = gateway.listen(), gateway.listen()
                try:
                    t_first = asyncio.ensure_future(first.__anext__())
                    t_second = asyncio.ensure_future(second.__anext__())
                    for _ in range(3):
                        await asyncio.sleep(0)
                    _t.deliver(report)
                    done, _pending = await asyncio.wait({t_first, t_second}, timeout=2.0, return_when=asyncio.FIRST_COMPLETED)
                    if not done:
                        return fail("report-swallowed", f"step {idx}: two listeners wait, {report!r} arrives, nobody yields or rejects it")
                    for t in done:
                        t.exception() if not t.cancelled() else None
                    writes_before = len(_t.writes)
                    _t.deliver(then)
                    rest = {t_first, t_second} - done
                    await asyncio.wait(rest, timeout=2.0)
                    reported = gateway.protocol_version
                    want = "1.4" if reported is None else ref_protocol(reported)
                    if want is not None and then.startswith("0;255;3;0;14;"):
                        discovered = any(w.split(";")[2:5] == ["3", "0", "20"] for _s, w in _t.writes[writes_before:])
                        if discovered != want.startswith("2"):
                            return fail(f"handlers-in-force:discover:{want}", f"step {idx}: a listener was already waiting when {report!r} arrived; the gateway-ready line it handled next {'was' if discovered else 'was not'} answered with a discover request (version {reported!r})")
                finally:
                    _t.wait_when_empty = False
                    if _t._arrival is not None:
                        _t._arrival.set()
                    for t in (t_first, t_second):
                        if not t.done():
                            t.cancel()
                    for agen in (first, second):
                        try:
                            await agen.aclose()
                        except BaseException:  # noqa: BLE001
                            pass
                    _t.inbox.clear()
                continue
            if op[0] == "backlog":
                # the report arrives behind a backlog of n other lines that were all delivered before the application reads any of them
                count, report = int(op[2]), op[3]
                if listener is not None:
                    await listener.close()
                _t.eager = True
                _t.inbox.extend(["0;255;3;0;9;backlog line\n"] * count + [report])
                agen = gateway.listen()
                seen = 0
                try:
                    for _ in range(count + 1):
                        try:
                            await agen.__anext__()
                            seen += 1
                        except env.Drained:
                            break
                finally:
                    await agen.aclose()
                    _t.inbox.clear()
                    _t.eager = False
                text = _report_text(report)
                if seen != count + 1:
                    return fail("report-swallowed", f"step {idx}: {count} lines and then {report!r} were delivered; only {seen} messages could be read (protocol_version {gateway.protocol_version!r})")
                if text is not None and ref_protocol(text) is not None and gateway.protocol_version != text:
                    return fail("report-not-stored", f"step {idx}: {report!r} arrived behind a backlog of {count} lines; protocol_version={gateway.protocol_version!r}")
                continue
            status, value = await deliver(op[1])
            reported, rules = gateway.protocol_version, gateway.protocol.VERSION
            text = _report_text(op[1])
            where = f"step {idx} {case['ops'][idx]!r}"
            if text is not None and status == "drained":
                return fail("report-swallowed", f"{where}: the report was delivered and neither yielded nor rejected (protocol_version {reported!r})")
            if text is not None and status != "ok":
                stats["rejected"] += 1
                if ref_protocol(text) is not None:
                    return fail(f"report-raises:{type(value).__name__}:{_shape(text)}", f"{where}: release version rejected: {value!r}")
                if reported != before:
                    return fail("rejected-report-stored", f"{where}: report raised {type(value).__name__} but protocol_version went {before!r} -> {reported!r} (rules {rules})")
            if text is not None and status == "ok":
                stats["accepted"] += 1
                if reported != text:
                    return fail("report-not-stored", f"{where}: accepted report but protocol_version={reported!r}")
            if text is None and reported != before:
                return fail("version-changed-by-other-traffic", f"{where}: protocol_version went {before!r} -> {reported!r}")
            if reported is None:
                if rules != "1.4":
                    return fail("disagree:none", f"{where}: no version reported but rules are {rules}")
            else:
                want = ref_protocol(reported)
                if want is not None and rules != want:
                    return fail(f"disagree:{_shape(reported)}", f"{where}: protocol_version={reported!r} but rules are {rules}, want {want}")
        # behavioural probes of the rules in force (on the same gateway, type 2 excluded)
        reported = gateway.protocol_version
        want = "1.4" if reported is None else ref_protocol(reported)
        if want is None:
            return None
        env.install_registry(gateway.nodes, {"1": {}})
        # ... and of the handlers in force: a 2.x controller asks an unknown node to present itself, a 1.x one does not
        before_writes = len(_t.writes)
        await deliver("77;1;1;0;0;1\n")
        asked = any(line == "77;255;3;0;19;\n" for _s, line in _t.writes[before_writes:])
        if asked != want.startswith("2"):
            return fail(f"handlers-in-force:{want}", f"after history, version {reported!r} (rules {want}): set from unknown node 77 {'wrote' if asked else 'did not write'} a presentation request")
        return await probe_rules("after history", PROBES)

    try:
        bad = env.run(go())
    finally:
        if stats.get("tmpdir"):
            import shutil

            shutil.rmtree(stats["tmpdir"], ignore_errors=True)
    classes = ("hist", f"reports={min(len(reports), 5)}") + ((f"persist={case['persist']}",) if case.get("persist") else ()) + (("hist-rejected-report",) if stats["rejected"] else ())
    if bad is not None:
        bad.classes = classes
        return bad
    return Outcome(ok=True, nontrivial=nontrivial, classes=classes)


def _run_persisted(case: dict) -> Outcome:
    """Entering the context with a persistence file that holds the gateway node: still no version reported => 1.4 rules."""
    import json
    import os
    import shutil
    import tempfile

    from aiomysensors.gateway import Config, Gateway

    from vf.props import c13

    scratch = tempfile.mkdtemp(prefix="vf-c05-", dir=c13.SCRATCH_BASE)
    path = os.path.join(scratch, "p.json")
    node0 = {"node_id": 0, "node_type": 18, "protocol_version": case["stored"], "sketch_name": "", "sketch_version": "", "battery_level": 0, "heartbeat": 0, "sleeping": False, "children": {}}
    with open(path, "w", encoding="utf-8") as fil:
        json.dump({"0": node0, "1": dict(node0, node_id=1, node_type=17)}, fil)

    async def go() -> Outcome | None:
        transport = env.RecordingTransport()
        gateway = Gateway(transport, Config(persistence_file=path))
        async with gateway:
            if gateway.protocol_version is not None:
                return fail("persisted:version-invented", f"no report received but protocol_version={gateway.protocol_version!r}")
            if gateway.protocol.VERSION != "1.4":
                return fail("disagree:none", f"no version reported (the file holds node 0 with {case['stored']!r}) but rules are {gateway.protocol.VERSION}")
            for cmd, mtype in PROBES:
                status, value = await env.rx(gateway, f"1;255;{cmd};0;{mtype};1\n")
                outcome = classify(status, value)
                if not _supported("1.4", cmd, mtype) and outcome != "unsupported":
                    return fail("rules-in-force:accepts:1.4", f"no version reported yet, type {cmd}/{mtype} gave {outcome}")
            await env.rx(gateway, f"0;255;3;0;2;{case['report']}\n")
            want = ref_protocol(case["report"])
            if gateway.protocol.VERSION != want or gateway.protocol_version != case["report"]:
                return fail("mapping-live:after-persisted", f"after report {case['report']!r}: version {gateway.protocol_version!r}, rules {gateway.protocol.VERSION}")
        return None

    try:
        bad = env.run(go())
    finally:
        shutil.rmtree(scratch, ignore_errors=True)
    classes = ("persisted",)
    if bad is not None:
        bad.classes = classes
        return bad
    return Outcome(ok=True, nontrivial=True, classes=classes)


def run_case(case: dict) -> Outcome:
    if case.get("kind") == "envsweep":
        return drive.run_env_case(case, frozenset({"vquery", "leak"}))
    if not case.get("debug_log"):
        with env.strict_warnings(case.get("warnings") == "error"):  # (what `python -W error` / pytest's filterwarnings=error amount to)
            return _run_case(case)
    # the library logging at DEBUG, as under the bundled CLI; a process that starts that way resolves every version
    # string for the first time with DEBUG on, so memoised resolutions of earlier cases are forgotten first
    clear = getattr(get_protocol, "cache_clear", None)
    if clear is not None:
        clear()
    with env.debug_logging(True), env.strict_warnings(case.get("warnings") == "error"):
        out = _run_case(case)
    if clear is not None:
        clear()
    out.classes = tuple(out.classes or ()) + ("debug-log",)
    return out


def _run_case(case: dict) -> Outcome:
    kind = case["kind"]
    if kind == "persisted":
        return _run_persisted(case)
    if kind == "map":
        return _run_map(case)
    if kind == "gate":
        return _run_gate(case)
    return _run_hist(case)
