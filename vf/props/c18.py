"""C18 - MQTT transport maps topics and lines one-to-one and never goes silently deaf (DESIGN 4.18)."""

from __future__ import annotations

import asyncio

import aiomqtt
from aiomqtt import MqttError
from aiomqtt.client import MessagesIterator
from hypothesis import strategies as st

import aiomysensors.transport.mqtt as mqtt_mod
from aiomysensors.exceptions import AIOMySensorsError, TransportError
from aiomysensors.model.message import MessageSchema
from aiomysensors.model.protocol import get_protocol
from aiomysensors.transport.mqtt import MQTTClient

from vf import env, gen
from vf.codec_ref import ref_format
from vf.runner import Outcome, fail
from vf.vloop import Deadlock, run_virtual

ID = "C18"
LEVEL = "exploration"
DESIGN_REF = "4.18"
RULE = (
    "cases = in/out topic prefixes (1-3 levels of arbitrary text without + # / NUL) x a history of operations on an MQTTClient whose aiomqtt "
    "client is a fake built around aiomqtt's real MessagesIterator and Message classes: write a well-formed message (payload classes: empty, "
    "with ';', with '/', non-ASCII, 2 kB), broker delivery of a message / of a binary (invalid UTF-8) payload, one terminal broker error, "
    "reads, echo (write, deliver what was published under the in-prefix, read, decode), publish/subscribe/connect faults, disconnect at any "
    "point. A fake broker delivers a topic only if a recorded subscription filter matches it by the MQTT '+' rule. Oracle: write => exactly one "
    "publish to '<out>/n/c/cmd/ack/type' with equal payload (empty => empty/absent) and qos == ack; every '<in>/n/c/cmd/ack/type' topic "
    "with cmd 0-4 is subscribed; deliveries read back as 'n;c;cmd;ack;type;payload'; echo law load(read(echo(write(dump(m))))) == m; reads "
    "return deliveries and errors in arrival order, each once (a read that would block forever is detected on a virtual-time loop); binary "
    "payload => one TransportError and later messages still arrive; faults surface as TransportError; disconnect never raises. Non-trivial "
    "= payload with ';', a prefix with '/', or an error between two good deliveries; distinct = distinct case JSON."
    ' Round 5: deliveries carry QoS 0-2 and the retain flag; payloads contain VT/FF/FS-RS/NEL/LS/PS/CR; `deliver_odd` sends topics with empty or odd levels (the next read is the literal line, a transport error or the following message).'
    ' Round 6: `cancelled_read k` (reader cancelled after k loop iterations: what it did not return stays owed); BOM/NUL/backslash payloads enumerated.'
    ' Round 7: prefix levels with regex/format/shell metacharacters; constructor failure for a legal prefix is a violation.'
    ' Round 8: `write_while_reading`.'
    ' Round 13: `reconnect fail_exit` (the broker fails during the goodbye, then the same object connects again); `build=outside` (the transport is created before any event loop runs).'
    ' Round 12: `concurrent_writes` (several tasks write while a publish takes a few loop iterations); `mid_cycle` (QoS > 0 deliveries whose packet identifiers repeat).'
    ' Round 9: `reconnect_retained` with staggered subscription acknowledgements; prefixes with empty levels.'
)
ASSUMPTIONS = [
    "aiomysensors.transport.mqtt.AsyncioClient is replaced by a fake (the name the repository's tests patch); paho and the network are trusted",
    "the fake exposes aiomqtt's real MessagesIterator over its own queue and disconnected-future, and real aiomqtt.Message objects",
]
DELETABLE = ("ops",)


def budgets(tier: str) -> dict:
    if tier == "quick":
        return {"examples": 1500, "shards": 4}
    return {"examples": 50000, "shards": 16}


class FakeBroker:
    def __init__(self) -> None:
        self.filters: list[str] = []
        self.published: list[tuple[str, object, int, bool]] = []
        self.fail_connect = False
        self.fail_subscribe = False
        self.fail_publish_next = False
        self.fail_exit = False
        self.client: "FakeClient | None" = None
        self.entered = 0
        self.exited = 0

    @staticmethod
    def matches(pattern: str, topic: str) -> bool:
        plevels, tlevels = pattern.split("/"), topic.split("/")
        for idx, plevel in enumerate(plevels):
            if plevel == "#":
                return True
            if idx >= len(tlevels):
                return False
            if plevel != "+" and plevel != tlevels[idx]:
                return False
        return len(plevels) == len(tlevels)

    def subscribed(self, topic: str) -> bool:
        return any(self.matches(f, topic) for f in self.filters)

    def deliver(self, topic: str, payload: bytes, qos: int = 0, retain: bool = False) -> bool:
        if not self.subscribed(topic) or self.client is None:
            return False
        # packet identifiers: 0 for QoS 0; for QoS > 0 a broker takes them from a small pool and re-uses one as soon as it was acknowledged
        self.mid = getattr(self, "mid", 0) + 1
        cycle = getattr(self, "mid_cycle", 0)
        mid = 0 if qos == 0 else ((self.mid % cycle) + 1 if cycle else self.mid)
        self.client._queue.put_nowait(aiomqtt.Message(topic, payload, qos, retain, mid, None))
        return True

    def break_connection(self) -> None:
        if self.client is not None and not self.client._disconnected.done():
            self.client._disconnected.set_exception(MqttError("broker went away"))


class FakeClient:
    """Stands in for aiomqtt.Client; message iteration is aiomqtt's own."""

    def __init__(self, broker: FakeBroker, *args, **kwargs) -> None:
        self.broker = broker
        broker.filters = []  # clean_session=True: a new client session starts without subscriptions
        self.args, self.kwargs = args, kwargs
        self._loop = asyncio.get_event_loop()
        self._queue: asyncio.Queue = asyncio.Queue()
        self._disconnected: asyncio.Future = self._loop.create_future()
        self.messages = MessagesIterator(self)  # type: ignore[arg-type]
        broker.client = self

    async def __aenter__(self):
        self.broker.entered += 1
        await asyncio.sleep(0)
        if self.broker.fail_connect:
            if getattr(self.broker, "fail_connect_once", False):
                self.broker.fail_connect = False  # only the first attempt is refused
            raise MqttError("connection refused")
        return self

    async def __aexit__(self, *exc) -> None:
        self.broker.exited += 1
        await asyncio.sleep(0)
        if getattr(self.broker, "exit_hang", None) is not None:
            self.broker.exit_hang.set()
            await asyncio.Event().wait()  # the broker never acknowledges the DISCONNECT: only a cancellation of the leaving task ends this
        if getattr(self.broker, "exit_exc", None) is not None:
            raise self.broker.exit_exc("socket error while disconnecting")  # what the socket layer raises is no MqttError; the connection is not reported closed
        if not self._disconnected.done():
            self._disconnected.set_result(None)
        if self.broker.fail_exit:
            raise MqttError("disconnect failed")

    async def subscribe(self, topic, qos=0, *args, **kwargs) -> None:
        await asyncio.sleep(0)
        # acknowledgements of different subscriptions arrive at different times (the later the filter, the later its SUBACK)
        self._sub_count = getattr(self, "_sub_count", 0) + 1
        for _ in range(getattr(self.broker, "slow_subscribe", 0) * self._sub_count):
            await asyncio.sleep(0)
        if self.broker.fail_subscribe:
            raise MqttError("subscribe failed")
        self.broker.filters.append(topic)
        # retained messages are delivered as soon as a matching subscription is active - possibly while connect() is still subscribing
        for entry in list(getattr(self.broker, "retained", [])):
            if self.broker.matches(topic, entry[0]):
                self.broker.retained.remove(entry)
                self.broker.deliver(entry[0], entry[1], 0, True)

    async def publish(self, topic, payload=None, qos=0, retain=False, *args, **kwargs) -> None:
        await asyncio.sleep(0)
        for _ in range(getattr(self.broker, "slow_publish", 0)):
            await asyncio.sleep(0)  # (the confirmation of a QoS > 0 publish takes a round trip)
        if self._disconnected.done() and self._disconnected.exception() is not None:
            raise MqttError("publish on a connection that was lost")
        if self.broker.fail_publish_next:
            kind, self.broker.fail_publish_next = self.broker.fail_publish_next, False
            if kind == "MqttCodeError":
                raise aiomqtt.MqttCodeError(4, "publish refused")
            raise MqttError("publish confirmation timed out")
        self.broker.published.append((topic, payload, qos, retain))


def _patch(broker: FakeBroker) -> None:
    mqtt_mod.AsyncioClient = lambda *a, **k: FakeClient(broker, *a, **k)  # type: ignore[assignment,misc]


class CountingMQTTClient(MQTTClient):
    """MQTTClient plus counters the lifecycle check (C16) reads."""

    connected = 0
    disconnected = 0

    async def connect(self) -> None:
        self.connected += 1
        await super().connect()

    async def disconnect(self) -> None:
        self.disconnected += 1
        await super().disconnect()


def make_mqtt_for_lifecycle(fault: str) -> CountingMQTTClient:
    broker = FakeBroker()
    broker.fail_connect = fault in ("connect", "connect-once")
    broker.fail_connect_once = fault == "connect-once"
    if fault in ("disconnect-oserror", "body+disconnect-oserror"):
        broker.exit_exc = OSError  # type: ignore[attr-defined]
    if fault == "disconnect-mqtterror":
        broker.fail_exit = True
    _patch(broker)
    client = CountingMQTTClient("broker.invalid", 1883, "gw-out", "gw-in")
    client.broker = broker  # type: ignore[attr-defined]
    if fault == "disconnect-hang":
        client.hanging = broker.exit_hang = asyncio.Event()  # type: ignore[attr-defined]
    return client


# ---------------------------------------------------------------------------

META_LEVELS = ("gw(1)", "lab[2]", "what?", "a|b", "$mys", "^top", "c*", "back\\slash", "dot.", "{x}", "open(", "x)", "[", "a{2}", "%s", "~", "sp ace", "\\d", "(?i)x")  # legal topic names all
_level = st.one_of(
    st.sampled_from(("mygateway1-out", "mygateway1-in", "mysensors", "test-out", "a", "3", "0", "gw 1", "é")),
    st.sampled_from(META_LEVELS),
    st.text(st.characters(exclude_characters="+#/\x00", exclude_categories=("Cs",)), min_size=1, max_size=6),
)
prefixes = st.one_of(
    st.lists(_level, min_size=1, max_size=3).map("/".join),
    st.lists(_level, min_size=1, max_size=3).map("/".join),
    # empty topic levels are legal: a leading '/', a doubled '/', a trailing '/'
    st.tuples(st.sampled_from(("/", "", "/")), st.lists(_level, min_size=1, max_size=2).map("//".join), st.sampled_from(("", "/", ""))).map("".join),
)
mqtt_payloads = st.one_of(
    st.sampled_from(("", "1", "20.5", "lat;lon;alt", ";", "a;b;;c", "a/b", "/", "x/y;z", "åäö", "日本", "p" * 2048)),
    # characters str.splitlines treats as line boundaries, inside the payload (MQTT payloads are not line-framed; only '\n' frames a serial line)
    st.sampled_from(("a\x0bb", "a\x0cb", "x\x1cy", "x\x1dy", "x\x1ey", "p\x85q", "p\u2028q", "p\u2029q", "a\rb", "1;2\x0b3;4", "\x0bz")),
    gen.payloads,
)
_meta = st.tuples(st.sampled_from((0, 0, 1, 2)), st.sampled_from((False, False, True))).map(list)  # QoS and retain flag of a delivery


def _msg():
    return st.tuples(gen.wellformed_message(), mqtt_payloads).map(lambda t: t[0][:5] + [t[1]])


def _ops():
    op = gen.weighted(
        (3, _msg().map(lambda m: ["write", m])),
        (5, st.tuples(_msg(), _meta).map(lambda t: ["deliver", t[0], t[1]])),
        (2, st.tuples(st.lists(st.sampled_from(("", " ", "x", "0", "1", "3", "255", "-1", "1.5")), min_size=5, max_size=5), st.sampled_from((0, 1, 2, 3, 4)),
                      st.sampled_from(("9;hello", "3;", "1", "", "0;255;3;0;9;z"))).map(lambda t: ["deliver_odd", t[0][:2] + [str(t[1])] + t[0][3:], t[2]])),
        (3, _msg().map(lambda m: ["echo", m])),
        (2, st.tuples(_msg(), st.sampled_from(("\xff\xfe", "\x80", "ab\xe9", "\xc3\x28"))).map(lambda t: ["deliver_bin", t[0][:5], t[1]])),
        (4, st.just(["read"])),
        (1, st.builds(lambda a, e: ["publish_fault", a, e], st.sampled_from((0, 1)), st.sampled_from(("MqttError", "MqttCodeError")))),
        (1, st.just(["broker_error"])),
        (1, st.just(["disconnect"])),
        (2, st.just(["reconnect"])),
        (1, st.just(["reconnect", "fail_exit"])),
        (2, st.just(["abandoned_read"])),
        (3, st.integers(0, 4).map(lambda k: ["cancelled_read", k])),
        (2, _msg().map(lambda m: ["write_while_reading", m])),
        (1, st.lists(_msg(), min_size=2, max_size=3).map(lambda ms: ["concurrent_writes", ms + [ms[0]], 2])),
        (2, _msg().map(lambda m: ["reconnect_retained", m])),
    )
    return st.lists(op, min_size=0, max_size=14)


def strategy(tier: str):
    return st.fixed_dictionaries(
        {
            "in_prefix": prefixes,
            "out_prefix": prefixes,
            "connect_fault": st.sampled_from(("none",) * 8 + ("connect", "subscribe")),
            "ops": _ops(),
            "mid_cycle": st.sampled_from((0, 0, 1, 2)),
            "build": st.sampled_from((None, None, "outside")),
        }
    )


def enumerate_cases(tier: str):
    yield {"in_prefix": "mygateway1-out", "out_prefix": "mygateway1-in", "connect_fault": "none", "ops": []}
    yield {"in_prefix": "a/b/c", "out_prefix": "d/e", "connect_fault": "none", "ops": [["disconnect"]]}
    burst = [["deliver", [7, 1, 1, 0, 2, str(i)]] for i in range(5000)]
    burst[2500] = ["deliver_bin", [7, 1, 1, 0, 2], "\xff\xfe"]
    yield {"in_prefix": "burst-in", "out_prefix": "burst-out", "connect_fault": "none", "ops": burst}
    for ack in (0, 1):
        for err in ("MqttError", "MqttCodeError"):
            yield {"in_prefix": "in", "out_prefix": "out", "connect_fault": "none", "ops": [["publish_fault", ack, err], ["deliver", [1, 1, 1, 0, 2, "1"]], ["read"]]}
    for prefix in ("gw1/out", "home/gw1", "site2/floor/mys-out", "1/2/3", "out", "255"):
        for node in (1, 12, 21, 254, 255):
            yield {"in_prefix": prefix, "out_prefix": prefix + "x", "connect_fault": "none",
                   "ops": [["deliver", [node, 1, 1, 0, 2, "1"]], ["read"], ["reconnect"], ["deliver", [node, 255, 3, 1, 0, "7"]], ["echo", [node, 2, 1, 1, 47, "a;b/c"]], ["reconnect"], ["deliver", [node, 255, 4, 0, 1, ""]]]}
    for fault in ("connect", "subscribe"):
        yield {"in_prefix": "in", "out_prefix": "out", "connect_fault": fault, "ops": []}
    # prefixes made of characters that mean something to regular expressions, format strings or shells
    for level in META_LEVELS:
        for in_prefix, out_prefix in ((level + "/out", level + "/in"), ("home/" + level, "home/" + level + "-in")):
            yield {"in_prefix": in_prefix, "out_prefix": out_prefix, "connect_fault": "none",
                   "ops": [["deliver", [1, 1, 1, 0, 2, "1"]], ["read"], ["echo", [12, 255, 3, 1, 9, "a;b"]], ["deliver", [255, 255, 3, 0, 3, ""]], ["reconnect"], ["deliver", [7, 255, 4, 0, 1, "ff"]], ["read"]]}
    # retained messages arriving during connect(), one per command (the subscriptions become active one after the other)
    for cmd, child in ((0, 1), (1, 1), (2, 1), (3, 255), (4, 255)):
        yield {"in_prefix": "gw-out", "out_prefix": "gw-in", "connect_fault": "none",
               "ops": [["reconnect_retained", [7, child, cmd, 0, 2, "kept"]], ["read"], ["deliver", [1, 1, 1, 0, 2, "1"]], ["reconnect_retained", [8, child, cmd, 1, 0, "again"]], ["read"], ["read"]]}
    # prefixes with empty topic levels (leading '/', '//', trailing '/'): published and subscribed exactly as configured
    for in_prefix, out_prefix in (("/home/gw-out", "/home/gw-in"), ("home//gw-out", "home//gw-in"), ("gw-out/", "gw-in/"), ("/", "//"), ("/a//b/", "/c")):
        yield {"in_prefix": in_prefix, "out_prefix": out_prefix, "connect_fault": "none",
               "ops": [["deliver", [1, 1, 1, 0, 2, "1"]], ["read"], ["echo", [12, 255, 3, 1, 9, "a;b"]], ["write", [3, 1, 2, 0, 0, ""]], ["reconnect"], ["deliver", [7, 255, 4, 0, 1, "ff"]], ["read"]]}
    for ack in (0, 1):
        yield {"in_prefix": "in", "out_prefix": "out", "connect_fault": "none",
               "ops": [["write_while_reading", [7, 1, 1, ack, 2, "a;b"]], ["deliver", [1, 1, 1, 0, 2, "1"]], ["read"], ["write_while_reading", [7, 255, 3, ack, 9, "x"]], ["reconnect"], ["write_while_reading", [1, 1, 2, ack, 0, ""]]]}
    # a burst is queued, the reader is cancelled after k loop iterations, the next reader gets everything that was not returned
    for k in range(0, 6):
        for n in (1, 2, 3):
            ops = [["deliver", [7, 1, 1, 0, 2, str(i)]] for i in range(n)] + [["deliver_bin", [7, 1, 1, 0, 2], "\xff"], ["deliver", [7, 1, 1, 0, 2, "last"]]]
            ops += [["cancelled_read", k], ["cancelled_read", k], ["read"], ["cancelled_read", k + 1]]
            yield {"in_prefix": "in", "out_prefix": "out", "connect_fault": "none", "ops": ops}
    # deliveries with QoS > 0 whose packet identifiers repeat (a broker re-uses an identifier once the delivery was acknowledged)
    for cycle in (1, 2, 3):
        for qos in (1, 2):
            ops = [["deliver", [7, 1, 1, 0, 2, str(i)], [qos, False]] for i in range(6)] + [["read"]] * 6 + [["deliver", [7, 1, 1, 0, 2, "1"], [qos, False]], ["deliver", [7, 1, 1, 0, 2, "1"], [qos, False]], ["read"], ["read"]]
            yield {"in_prefix": "in", "out_prefix": "out", "connect_fault": "none", "ops": ops, "mid_cycle": cycle}
    # an unclean disconnect (the broker fails during the goodbye), then the same object connects again; a transport built before the loop exists
    for how in ("fail_exit", None):
        for build in (None, "outside"):
            ops = [["deliver", [1, 1, 1, 0, 2, "1"]], ["read"], ["reconnect"] + ([how] if how else []), ["deliver", [7, 255, 3, 1, 0, "7"]], ["read"], ["echo", [7, 2, 1, 1, 47, "a;b"]],
                   ["reconnect"] + ([how] if how else []), ["write", [3, 1, 2, 0, 0, ""]], ["deliver", [7, 255, 4, 0, 1, ""]], ["read"]]
            yield {"in_prefix": "in", "out_prefix": "out", "connect_fault": "none", "ops": ops, "build": build}
    # several tasks write at once while a publish takes a few loop iterations
    for slow in (0, 1, 3):
        for msgs in ([[7, 1, 1, 0, 2, "a"], [7, 1, 1, 0, 2, "b"]], [[7, 1, 1, 1, 2, "a"], [7, 1, 1, 1, 2, "a"]], [[7, 1, 1, 0, 2, "a"], [8, 255, 3, 1, 9, "b"], [9, 1, 2, 0, 0, ""]],
                     [[7, 1, 1, 1, 47, "x;y"], [7, 1, 1, 1, 47, "x;y"], [7, 1, 1, 1, 47, "z"], [7, 2, 1, 0, 47, "x;y"]]):
            yield {"in_prefix": "in", "out_prefix": "out", "connect_fault": "none",
                   "ops": [["concurrent_writes", msgs, slow], ["deliver", [1, 1, 1, 0, 2, "1"]], ["read"], ["concurrent_writes", msgs, slow], ["reconnect"], ["concurrent_writes", msgs, slow]]}
    # what the broker replays right after the subscription (retained messages), and every QoS it may deliver with
    for qos in (0, 1, 2):
        for retain in (False, True):
            yield {"in_prefix": "gw-out", "out_prefix": "gw-in", "connect_fault": "none",
                   "ops": [["deliver", [1, 255, 0, 0, 17, "2.3.2"], [qos, retain]], ["deliver", [1, 1, 1, 0, 2, "1"], [qos, retain]], ["deliver", [0, 255, 3, 0, 9, "x"], [0, False]], ["read"], ["read"], ["read"]]}
    # payload characters that are line boundaries for str.splitlines but not for MQTT
    for text in ("a\x0bb", "a\x0cb", "x\x1cy", "x\x1dy", "x\x1ey", "p\x85q", "p\u2028q", "p\u2029q", "a\rb", "1;2\x0b3;4", "\ufeff21.5", "\ufeff", "x\ufeffy", "\ufeff;\ufeff", "\x00", "\x00x", "\\n", "%0A"):
        yield {"in_prefix": "in", "out_prefix": "out", "connect_fault": "none", "ops": [["echo", [7, 1, 1, 0, 47, text]], ["write", [7, 255, 3, 1, 9, text]], ["deliver", [7, 1, 1, 0, 47, text]], ["read"]]}
    # topics with an empty or odd level: the line read back is spelled by the levels, nothing may shift between payload and header
    for pos in range(5):
        for text in ("", " ", "x"):
            if pos == 2:
                continue
            for payload in ("9;hello", "3;", "1"):
                levels = ["3", "255", "3", "0", "9"]
                levels[pos] = text
                yield {"in_prefix": "gw/out", "out_prefix": "gw/in", "connect_fault": "none", "ops": [["deliver_odd", levels, payload], ["deliver", [1, 1, 1, 0, 2, "1"]], ["read"]]}
    for cmd, child in ((0, 1), (1, 1), (2, 1), (3, 255), (4, 255)):
        for ack in (0, 1):
            yield {"in_prefix": "x/in", "out_prefix": "x/out", "connect_fault": "none",
                   "ops": [["echo", [7, child, cmd, ack, 2, "a;b"]], ["deliver", [255, child, cmd, ack, 0, ""]], ["read"]]}


def run_case(case: dict) -> Outcome:
    in_prefix, out_prefix = case["in_prefix"], case["out_prefix"]
    info = {"err_between": False, "delim": False, "kinds": set()}

    prebuilt: dict = {}
    if case.get("build") == "outside":
        # the transport object is created by synchronous start-up code, before any event loop runs
        prebuilt["broker"] = FakeBroker()
        _patch(prebuilt["broker"])
        try:
            prebuilt["transport"] = MQTTClient("broker.invalid", 1883, in_prefix, out_prefix)
        except Exception as err:  # noqa: BLE001
            return fail(f"construct-raises:{type(err).__name__}", f"MQTTClient built outside any event loop raised {err!r}")

    async def main() -> Outcome | None:
        broker = prebuilt.get("broker") or FakeBroker()
        broker.mid_cycle = int(case.get("mid_cycle") or 0)
        broker.fail_connect = case["connect_fault"] == "connect"
        broker.fail_subscribe = case["connect_fault"] == "subscribe"
        _patch(broker)
        try:
            transport = prebuilt.get("transport") or MQTTClient("broker.invalid", 1883, in_prefix, out_prefix)
        except Exception as err:  # noqa: BLE001
            return fail(f"construct-raises:{type(err).__name__}", f"MQTTClient with in-prefix {in_prefix!r} / out-prefix {out_prefix!r} (legal topic names) raised {err!r}")
        schema = MessageSchema()
        schema.set_protocol(get_protocol("2.2"))
        try:
            await transport.connect()
        except TransportError:
            if case["connect_fault"] == "none":
                return fail("connect-raises", "connect raised TransportError without a fault")
            return None
        except Exception as err:  # noqa: BLE001
            return fail(f"connect-leak:{type(err).__name__}", f"connect ({case['connect_fault']} fault) raised {err!r}")
        if case["connect_fault"] != "none":
            return fail("connect-fault-swallowed", f"{case['connect_fault']} failed but connect returned")

        expected: list[tuple[str, object]] = []  # FIFO of ("line", text) / ("error", why)
        dead = False  # after a terminal broker error nothing more can arrive
        connected = True

        async def settle() -> None:
            for _ in range(6):
                await asyncio.sleep(0)

        async def do_read(where: str) -> Outcome | None:
            kind, want = expected.pop(0)
            try:
                got = await asyncio.wait_for(transport.read(), 5.0)
            except asyncio.TimeoutError:
                return fail(f"read-hangs:expected-{kind}", f"{where}: a read blocks forever although {kind} {str(want)[:80]!r} arrived (reception went deaf)")
            except AIOMySensorsError as err:
                if kind == "error" and isinstance(err, TransportError):
                    info["kinds"].add("error")
                    return None
                return fail(f"read-raises:{type(err).__name__}:expected-{kind}", f"{where}: read raised {err!r}, expected {kind} {str(want)[:80]!r}")
            except Exception as err:  # noqa: BLE001
                return fail(f"read-leak:{type(err).__name__}", f"{where}: read raised {err!r}")
            if kind == "error":
                return fail("read-no-error", f"{where}: read returned {got!r}, expected a TransportError ({want})")
            if got != want and got.rstrip("\n") != str(want).rstrip("\n"):
                return fail("read-wrong-line", f"{where}: read returned {got!r}, expected {want!r}")
            info["kinds"].add("line")
            return None

        for idx, op in enumerate(case["ops"]):
            kind = op[0]
            where = f"op {idx} {str(op)[:120]}"
            if kind in ("write", "echo"):
                msg = op[1]
                if ";" in msg[5]:
                    info["delim"] = True
                line = ref_format(*msg)
                before = len(broker.published)
                try:
                    await transport.write(line)
                except AIOMySensorsError as err:
                    if dead and isinstance(err, TransportError):
                        continue  # the broker connection is gone: a publish that fails says so
                    return fail(f"write-raises:{type(err).__name__}", f"{where}: write({line[:80]!r}) raised {err!r}")
                except Exception as err:  # noqa: BLE001
                    return fail(f"write-leak:{type(err).__name__}", f"{where}: write({line[:80]!r}) raised {err!r}")
                new = broker.published[before:]
                want_topic = f"{out_prefix}/{msg[0]}/{msg[1]}/{msg[2]}/{msg[3]}/{msg[4]}"
                if len(new) != 1:
                    return fail("publish-count", f"{where}: {len(new)} publishes for one write")
                topic, payload, qos, retain = new[0]
                if topic != want_topic:
                    return fail("publish-topic", f"{where}: published to {topic!r}, expected {want_topic!r}")
                got_payload = "" if payload is None else (payload.decode() if isinstance(payload, bytes) else payload)
                if got_payload != msg[5] and not (msg[5] != msg[5].rstrip() and got_payload == msg[5].rstrip()):  # (trailing whitespace is outside the payload domain)
                    return fail("publish-payload", f"{where}: published payload {str(got_payload)[:80]!r}, expected {msg[5][:80]!r}")
                if qos != msg[3]:
                    return fail("publish-qos", f"{where}: published with qos {qos}, ack flag is {msg[3]}")
                if retain:
                    return fail("publish-retain", f"{where}: published with retain set")
                if kind == "echo" and not dead:
                    echo_topic = f"{in_prefix}/" + topic[len(out_prefix) + 1 :]
                    if not broker.deliver(echo_topic, got_payload.encode("utf-8"), qos):
                        return fail("not-subscribed", f"{where}: topic {echo_topic!r} matches none of the subscriptions {broker.filters!r}")
                    await settle()
                    while len(expected) > 0:
                        bad = await do_read(where)
                        if bad is not None:
                            return bad
                    expected.append(("line", line))
                    kind2, want2 = expected[0]
                    try:
                        got = await asyncio.wait_for(transport.read(), 5.0)
                    except asyncio.TimeoutError:
                        return fail("read-hangs:expected-line", f"{where}: the echoed message never arrives")
                    except Exception as err:  # noqa: BLE001
                        return fail(f"echo-read-raises:{type(err).__name__}", f"{where}: {err!r}")
                    expected.pop(0)
                    try:
                        loaded = schema.load(got)
                    except Exception as err:  # noqa: BLE001
                        return fail("echo-not-decodable", f"{where}: echoed line {got[:80]!r} does not decode: {err!r}")
                    if env.msg_fields(loaded) != msg:
                        return fail("echo-differs", f"{where}: sent {msg}, echoed back as {env.msg_fields(loaded)}")
            elif kind in ("deliver", "deliver_bin"):
                if dead:
                    continue
                msg = op[1]
                topic = f"{in_prefix}/{msg[0]}/{msg[1]}/{msg[2]}/{msg[3]}/{msg[4]}"
                payload = msg[5].encode("utf-8") if kind == "deliver" else op[2].encode("latin-1")
                meta = op[2] if kind == "deliver" and len(op) > 2 else [msg[3], False]
                if meta[1]:
                    info["kinds"].add("retained")
                if not broker.deliver(topic, payload, meta[0], bool(meta[1])):
                    return fail("not-subscribed", f"{where}: topic {topic!r} matches none of the subscriptions {broker.filters!r}")
                if kind == "deliver":
                    expected.append(("line", f"{msg[0]};{msg[1]};{msg[2]};{msg[3]};{msg[4]};{msg[5]}"))
                else:
                    if any(k == "line" for k, _ in expected):
                        info["err_between"] = True
                    expected.append(("error", "undecodable payload"))
                await settle()
            elif kind == "deliver_odd":
                if dead:
                    continue
                levels, text = op[1], op[2]
                if not broker.deliver(f"{in_prefix}/" + "/".join(levels), text.encode("utf-8"), 0):
                    continue  # no subscription matches such a topic: the broker sends nothing
                # drain what is owed first, then: the literal line, a transport error, or nothing at all - but never another line
                await settle()
                while expected:
                    bad = await do_read(where)
                    if bad is not None:
                        return bad
                sentinel = f"1;1;1;0;2;sentinel{idx}"
                broker.deliver(f"{in_prefix}/1/1/1/0/2", f"sentinel{idx}".encode(), 0)
                await settle()
                literal = ";".join(levels) + ";" + text
                try:
                    got = await asyncio.wait_for(transport.read(), 5.0)
                except asyncio.TimeoutError:
                    return fail("read-hangs:after-odd-topic", f"{where}: nothing can be read after a message on an odd topic")
                except TransportError:
                    expected.append(("line", sentinel))
                    continue
                except Exception as err:  # noqa: BLE001
                    return fail(f"read-leak:{type(err).__name__}", f"{where}: read raised {err!r}")
                if got.rstrip("\n") == sentinel:
                    continue
                if got.rstrip("\n") != literal.rstrip("\n") and got != literal:
                    return fail("odd-topic-misread", f"{where}: topic levels {levels!r} + payload {text!r} were read back as {got!r} (the levels and payload spell {literal!r})")
                expected.append(("line", sentinel))
            elif kind == "broker_error":
                if dead:
                    continue
                broker.break_connection()
                expected.append(("error", "broker error"))
                dead = True
                await settle()
            elif kind == "publish_fault":
                ack_flag = op[1] if len(op) > 1 else 0
                broker.fail_publish_next = op[2] if len(op) > 2 else "MqttError"
                try:
                    await transport.write(f"1;1;1;{ack_flag};2;1\n")
                except TransportError:
                    pass
                except Exception as err:  # noqa: BLE001
                    return fail(f"publish-fault-leak:{type(err).__name__}", f"{where}: failing publish surfaced as {err!r}")
                else:
                    return fail("publish-fault-swallowed", f"{where}: publish failed but write returned")
                finally:
                    broker.fail_publish_next = False  # (the fault belongs to this write only, whichever way it failed)
            elif kind == "read":
                if expected:
                    bad = await do_read(where)
                    if bad is not None:
                        return bad
            elif kind == "abandoned_read":
                # the application gives up a read that found nothing (polling with a timeout); nothing may be lost by that
                if not expected and not dead:
                    try:
                        await asyncio.wait_for(transport.read(), 3.0)
                    except asyncio.TimeoutError:
                        pass
                    except AIOMySensorsError:
                        pass
                    except Exception as err:  # noqa: BLE001
                        return fail(f"read-leak:{type(err).__name__}", f"{where}: {err!r}")
                    else:
                        return fail("read-invented-message", f"{where}: a read returned although nothing was delivered")
            elif kind == "write_while_reading":
                # the usual state of a listening gateway: one task waits in read() on an empty queue while another one writes
                if expected or dead:
                    continue
                msg = op[1]
                reader_task = asyncio.ensure_future(transport.read())
                for _ in range(3):
                    await asyncio.sleep(0)
                before = len(broker.published)
                try:
                    await asyncio.wait_for(transport.write(ref_format(*msg)), 5.0)
                except asyncio.TimeoutError:
                    reader_task.cancel()
                    return fail("write-blocked-by-pending-read", f"{where}: write did not complete while another task was waiting in read()")
                except Exception as err:  # noqa: BLE001
                    reader_task.cancel()
                    return fail(f"write-raises:{type(err).__name__}", f"{where}: {err!r}")
                if len(broker.published) != before + 1:
                    reader_task.cancel()
                    return fail("publish-count", f"{where}: {len(broker.published) - before} publishes for one write (a read was pending)")
                broker.deliver(f"{in_prefix}/3/3/1/0/2", f"wake{idx}".encode(), 0)
                try:
                    got = await asyncio.wait_for(reader_task, 5.0)
                except asyncio.TimeoutError:
                    return fail("read-hangs:expected-line", f"{where}: the pending read never returned the delivered message")
                except Exception as err:  # noqa: BLE001
                    return fail(f"read-raises:{type(err).__name__}:expected-line", f"{where}: {err!r}")
                if got.rstrip("\n") != f"3;3;1;0;2;wake{idx}":
                    return fail("read-wrong-line", f"{where}: pending read returned {got!r}")
            elif kind == "concurrent_writes":
                # several tasks write at the same time (the publish takes a few loop iterations): each line is published exactly once
                if dead:
                    continue
                msgs = op[1]
                before = len(broker.published)
                broker.slow_publish = int(op[2]) if len(op) > 2 else 2
                try:
                    results = await asyncio.wait_for(asyncio.gather(*(transport.write(ref_format(*m)) for m in msgs), return_exceptions=True), 5.0)
                except asyncio.TimeoutError:
                    return fail("concurrent-writes-hang", f"{where}: {len(msgs)} concurrent writes never finish")
                finally:
                    broker.slow_publish = 0
                for m, res in zip(msgs, results):
                    if isinstance(res, BaseException):
                        return fail(f"write-raises:{type(res).__name__}", f"{where}: concurrent write of {m} raised {res!r} (nothing was wrong with the connection)")
                got_pubs = sorted((t, "" if p is None else (p.decode() if isinstance(p, bytes) else p)) for t, p, _q, _r in broker.published[before:])
                want_pubs = sorted((f"{out_prefix}/{m[0]}/{m[1]}/{m[2]}/{m[3]}/{m[4]}", m[5]) for m in msgs)
                if got_pubs != want_pubs:
                    return fail("concurrent-writes-publishes-differ", f"{where}: {len(msgs)} tasks wrote {msgs!r}; the broker received {got_pubs!r}")
                info["kinds"].add("concurrent-writes")
            elif kind == "cancelled_read":
                # the reading task is cancelled (shutdown, asyncio.timeout) after a few loop iterations: an entry it did not
                # return stays owed to the next read - whatever point of read() the cancellation hit
                task = asyncio.ensure_future(transport.read())
                for _ in range(int(op[1])):
                    await asyncio.sleep(0)
                if not task.done():
                    task.cancel()
                try:
                    got = await asyncio.wait_for(task, 5.0)
                except asyncio.CancelledError:
                    info["kinds"].add("cancelled-read")
                    continue
                except asyncio.TimeoutError:
                    return fail("read-hangs:cancelled", f"{where}: a cancelled read never ends")
                except TransportError as err:
                    if not expected or expected[0][0] != "error":
                        return fail(f"read-raises:{type(err).__name__}:expected-{expected[0][0] if expected else 'nothing'}", f"{where}: read raised {err!r}")
                    expected.pop(0)
                    continue
                except Exception as err:  # noqa: BLE001
                    return fail(f"read-leak:{type(err).__name__}", f"{where}: {err!r}")
                if not expected:
                    return fail("read-invented-message", f"{where}: a read returned {got!r} although nothing is owed")
                want_kind, want = expected.pop(0)
                if want_kind != "line" or (got != want and got.rstrip("\n") != str(want).rstrip("\n")):
                    return fail("read-wrong-line", f"{where}: read returned {got!r}, expected {want_kind} {want!r}")
            elif kind == "reconnect_retained":
                # the broker holds a retained message for this client: it arrives while connect() is still busy subscribing
                msg = op[1]
                try:
                    await transport.disconnect()
                except Exception as err:  # noqa: BLE001
                    return fail(f"reconnect-raises:{type(err).__name__}", f"{where}: disconnect raised {err!r}")
                topic = f"{in_prefix}/{msg[0]}/{msg[1]}/{msg[2]}/{msg[3]}/{msg[4]}"
                broker.retained = [(topic, msg[5].encode("utf-8"))]
                broker.slow_subscribe = 3
                try:
                    await transport.connect()
                except BaseException as err:  # noqa: BLE001
                    return fail(f"reconnect-raises:{type(err).__name__}", f"{where}: connect raised {err!r}")
                broker.slow_subscribe = 0
                dead = False
                if broker.retained:
                    return fail("not-subscribed", f"{where}: topic {topic!r} matches none of the subscriptions {broker.filters!r}")
                expected.append(("line", f"{msg[0]};{msg[1]};{msg[2]};{msg[3]};{msg[4]};{msg[5]}"))
                await settle()
            elif kind == "reconnect":
                # same transport object, new session; what was received but not read yet stays owed to the reader
                try:
                    if len(op) > 1 and op[1] == "fail_exit":
                        broker.fail_exit = True  # the broker (or the network) fails while the client says goodbye: an unclean disconnect
                    try:
                        await transport.disconnect()
                    finally:
                        broker.fail_exit = False
                    await transport.connect()
                except BaseException as err:  # noqa: BLE001 - a CancelledError leaking out of disconnect counts (nobody cancels this task)
                    return fail(f"reconnect-raises:{type(err).__name__}", f"{where}: disconnect+connect on the same transport raised {err!r}")
                dead = False
            elif kind == "disconnect":
                connected = False
                break
        if connected:
            where = "draining at the end"
            while expected:
                bad = await do_read(where)
                if bad is not None:
                    return bad
        try:
            await transport.disconnect()
        except BaseException as err:  # noqa: BLE001
            return fail(f"disconnect-raises:{type(err).__name__}", f"disconnect raised {err!r} (ops: {len(case['ops'])}, pending deliveries: {len(expected)})")
        await settle()
        me = asyncio.current_task()
        left = [t for t in asyncio.all_tasks() if t is not me and not t.done()]
        if left:
            return fail("task-left-after-disconnect", f"tasks still running after disconnect: {left!r}")
        return None

    try:
        bad, _ = run_virtual(main)
    except Deadlock:
        bad = fail("deadlock", "the event loop has nothing left to run (a read or disconnect blocks forever)")
    classes = tuple(sorted({f"op:{op[0]}" for op in case["ops"]})) + (("prefix-with-slash",) if "/" in in_prefix + out_prefix else ()) + (f"connect={case['connect_fault']}",)
    if bad is not None:
        bad.classes = classes
        return bad
    nontrivial = info["delim"] or "/" in in_prefix or "/" in out_prefix or info["err_between"]
    return Outcome(ok=True, nontrivial=nontrivial, classes=classes)
