"""C14 - loading a persistence file fails only with the persistence read error (DESIGN 4.14)."""

from __future__ import annotations

import asyncio
import json
import os
import shutil
import tempfile

from hypothesis import strategies as st

from aiomysensors.exceptions import PersistenceReadError
from aiomysensors.gateway import Config, Gateway

from vf import env
from vf.props import c13, c15
from vf.runner import Outcome, fail

ID = "C14"
LEVEL = "exploration"
DESIGN_REF = "4.14"
RULE = (
    "cases = file content as bytes, from: (1) every kind of cut of generated valid files (prefixes), (2) structural mutations of valid native "
    "and legacy files at a random JSON path (replace by an arbitrary JSON value, delete, rename, duplicate under a new key, add unknown key, "
    "wrong container), (3) arbitrary JSON documents from a recursive strategy incl. top-level scalars/lists/null, NaN/Infinity, huge ints, "
    "100k-deep nesting, (4) arbitrary bytes incl. invalid UTF-8 and BOMs, (5) special paths: missing file (with empty and non-empty "
    "registry), empty file, a directory. Oracle: Persistence.load returns or raises PersistenceReadError; any other exception is a "
    "violation bucketed by type and innermost package frame; a missing file is created and then loads to the current registry; an empty "
    "file loads as an empty registry. Non-trivial = content that json.loads accepts but that is not a valid registry file (load raised), "
    "or a special path; distinct = distinct file content. Thorough adds a coverage-guided atheris campaign over the file bytes."
    ' Round 5: non-finite and huge numbers for every field; missing file after the same object saved/loaded it before.'
    ' Round 6: missing file after the same object failed to load a damaged one.'
    ' Round 7: lone surrogates, NUL, very long and non-ASCII-digit texts per field; odd keys enumerated.'
    ' Round 8: raw texts no dump produces (repeated keys...) and binary container formats.'
    ' Round 9: missing file while the registry holds text the file encoding cannot encode.'
    ' Round 10: `prior_session` (the Persistence object was started and stopped before) and `debug_log` for special paths and a set of contents.'
    ' Round 11: number spellings with exponents no number type holds, at every level; every mutated content also with warnings as errors (all modules).'
    ' Round 12: `file_name`; specials missing-dangling-symlink / missing-concurrent-loads / missing-other-path; a pass under `python -O`.'
    ' Round 13: specials other-path-native/legacy-unwritable-own.'
    ' Round 14: `loops` kind (one gateway object under 1-3 event loops in turn, overlapping loads in each).'
)
ASSUMPTIONS = ["real files in a scratch directory; running as root, so permission faults are represented by the directory case only"]
SHRINK_STRINGS = ("data",)

json_scalars = st.one_of(
    st.none(), st.booleans(), st.integers(-5, 300), st.sampled_from((10**30, -1, 256, 101, 1.5, float("nan"), float("inf"), -0.0)),
    st.text(max_size=6), st.sampled_from(("", "1", "x", "18", "true", "null", "2.0", "\ud800", "a\udfff", "\x00", "²", "①")),
)
json_values = st.recursive(
    json_scalars,
    lambda inner: st.one_of(st.lists(inner, max_size=3), st.dictionaries(st.one_of(st.sampled_from(("0", "1", "x", "-1", "1.5", "node_id", "children", "values", "type", "id")), st.text(max_size=3)), inner, max_size=3)),
    max_leaves=8,
)


def budgets(tier: str) -> dict:
    if tier == "quick":
        return {"examples": 2000, "shards": 4, "enum_shards": 2}
    return {"examples": 60000, "shards": 16, "enum_shards": 2}


def _native(snapshot: dict) -> dict:
    return json.loads(json.dumps(snapshot))


def _paths(doc, prefix=()):
    yield prefix
    if isinstance(doc, dict):
        for key, val in doc.items():
            yield from _paths(val, prefix + (key,))
    elif isinstance(doc, list):
        for idx, val in enumerate(doc):
            yield from _paths(val, prefix + (idx,))


@st.composite
def _mutated(draw) -> dict:
    reg = draw(c13._direct_registry())
    if not reg:
        reg = {"1": {"node_id": 1, "node_type": 17, "protocol_version": "2.0", "sketch_name": "", "sketch_version": "", "battery_level": 0, "heartbeat": 0, "sleeping": False, "children": {"1": {"child_id": 1, "child_type": 6, "description": "", "values": {"0": "20"}}}}}
    doc = _native(reg) if draw(st.booleans()) else c13._legacy(reg, draw(st.booleans()))
    for _ in range(draw(st.sampled_from((1, 1, 2)))):
        paths = list(_paths(doc))
        path = draw(st.sampled_from(paths))
        op = draw(st.sampled_from(("replace", "replace", "delete", "rename", "unknown-key", "duplicate", "wrong-container")))
        if not path:
            if op in ("replace", "wrong-container"):
                doc = draw(json_values)
                if not isinstance(doc, (dict, list)):
                    return {"kind": "content", "origin": f"mutated:{op}", "data": json.dumps(doc)}
            continue
        parent = doc
        for key in path[:-1]:
            parent = parent[key]
        last = path[-1]
        if op == "replace":
            parent[last] = draw(json_values)
        elif op == "delete":
            del parent[last]
        elif op == "rename" and isinstance(parent, dict):
            parent[draw(st.sampled_from(("x", "-1", "1.5", "", "99999", "abc", "255", "256")))] = parent.pop(last)
        elif op == "unknown-key":
            target = parent[last]
            if isinstance(target, dict):
                target[draw(st.sampled_from(("extra", "reboot", "new_state", "alias")))] = draw(json_scalars)
        elif op == "duplicate" and isinstance(parent, dict):
            parent[draw(st.sampled_from(("7", "x", "300")))] = parent[last]
        elif op == "wrong-container":
            parent[last] = [parent[last]] if draw(st.booleans()) else {"0": parent[last]}
    return {"kind": "content", "origin": "mutated", "data": json.dumps(doc), "prefill": draw(st.booleans())}


@st.composite
def _prefix(draw) -> dict:
    reg = draw(c13._direct_registry())
    text = json.dumps(_native(reg), sort_keys=True, indent=2)
    cut = draw(st.integers(0, len(text)))
    return {"kind": "content", "origin": "prefix", "data": text[:cut].encode("utf-8").decode("latin-1")}


def strategy(tier: str):
    arbitrary_json = json_values.map(lambda v: {"kind": "content", "origin": "json", "data": json.dumps(v)})
    raw = st.one_of(
        st.binary(max_size=40),
        st.sampled_from((b"\xff\xfe", b"\xef\xbb\xbf{}", b"\xef\xbb\xbf", b"{\"1\": \xff}", b"\x00", b"{}\x00", b"nul", b"[]", b"{\"1\":{}}", b"1", b"\"x\"", b"{\"a\":1}{}", b"  ", b"\n")),
    ).map(lambda b: {"kind": "content", "origin": "bytes", "data": b.decode("latin-1")})
    special = st.sampled_from(SPECIALS).map(lambda w: {"kind": "special", "what": w})
    base = st.one_of(_mutated(), _mutated(), _mutated(), _prefix(), arbitrary_json, arbitrary_json, raw, special)

    def _mode(pair):
        case, mode = pair
        if mode == "warnings":
            return {**case, "warnings": "error"}
        return {**case, mode: True} if mode else case

    return st.tuples(base, st.sampled_from((None, None, None, None, "debug_log", "prior_session"))).map(_mode)


SPECIALS = ("missing-empty-registry", "missing-with-registry", "empty-file", "directory", "missing-after-start", "missing-after-save", "missing-after-load", "missing-after-failed-load",
            "missing-with-odd-text", "missing-dangling-symlink", "missing-concurrent-loads", "missing-other-path", "other-path-native-unwritable-own", "other-path-legacy-unwritable-own")


def _enumerate_base(tier: str):
    for digits in (4300, 4301, 5000, 100000):
        big = "1" * digits
        for text in (big, "-" + big, f"[{big}]", '{"1": ' + big + "}", '{"1": {"node_id": ' + big + "}}",
                     '{"1": {"node_id": 1, "node_type": 17, "protocol_version": "2.0", "battery_level": ' + big + "}}",
                     '{"1": {"node_id": 1, "node_type": 17, "protocol_version": "2.0", "children": {"1": {"child_id": 1, "child_type": ' + big + "}}}}",
                     f'{{"1": {{"node_id": 1, "node_type": 17, "protocol_version": "2.0", "children": {{"{big}": {{"child_id": 1, "child_type": 1}}}}}}}}',
                     f"{big}.5", f"1e{big[:6]}"):
            yield {"kind": "content", "origin": "long-number", "data": text}
    for depth in (100, 300, 600, 900, 1200, 1450, 2500, 20000):
        # well-formed JSON, nested deeply at each level of a record
        arr = "[" * depth + "]" * depth
        obj = '{"a":' * depth + "1" + "}" * depth
        for inner in (arr, obj):
            yield {"kind": "content", "origin": "deep-valid", "data": inner}
            yield {"kind": "content", "origin": "deep-valid", "data": '{"1": ' + inner + "}"}
            yield {"kind": "content", "origin": "deep-valid", "data": '{"1": {"node_id": 1, "node_type": 17, "protocol_version": "2.0", "extra": ' + inner + "}}"}
            yield {"kind": "content", "origin": "deep-valid", "data": '{"1": {"node_id": 1, "node_type": 17, "protocol_version": "2.0", "sketch_name": ' + inner + "}}"}
            yield {"kind": "content", "origin": "deep-valid", "data": '{"1": {"sensor_id": 1, "type": 17, "protocol_version": "2.0", "children": {"1": ' + inner + "}}}"}
            yield {"kind": "content", "origin": "deep-valid", "data": '{"1": {"node_id": 1, "node_type": 17, "protocol_version": "2.0", "children": {"1": {"child_id": 1, "child_type": 1, "values": {"1": ' + inner + "}}}}}"}
    # number spellings whose exponent no number type holds (whatever type the loader parses numbers into), at every level of a record
    for num in ("1e1000000000000000000", "1E-99999999999999999999", "-1e999999999999999999999", "1e5000", "-1e5000", "1.5e400", "1e-5000", "123456789e-400", "0e99999999999999999999",
                "1e+99999999999999999999", "9" * 400 + ".5", "0." + "0" * 400 + "1", "1e308", "1e309", "-0.0", "-0", "5e-324", "1.0000000000000000000000001"):
        for text in (num, f"[{num}]", '{"1": ' + num + "}", '{"1": {"node_id": ' + num + ', "node_type": 17, "protocol_version": "2.0"}}',
                     '{"1": {"node_id": 1, "node_type": ' + num + ', "protocol_version": "2.0"}}', '{"1": {"node_id": 1, "node_type": 17, "protocol_version": ' + num + "}}",
                     '{"1": {"node_id": 1, "node_type": 17, "protocol_version": "2.0", "battery_level": ' + num + "}}", '{"1": {"node_id": 1, "node_type": 17, "protocol_version": "2.0", "heartbeat": ' + num + "}}",
                     '{"1": {"node_id": 1, "node_type": 17, "protocol_version": "2.0", "sleeping": ' + num + "}}",
                     '{"1": {"node_id": 1, "node_type": 17, "protocol_version": "2.0", "children": {"1": {"child_id": ' + num + ', "child_type": 6}}}}',
                     '{"1": {"node_id": 1, "node_type": 17, "protocol_version": "2.0", "children": {"1": {"child_id": 1, "child_type": ' + num + "}}}}",
                     '{"1": {"node_id": 1, "node_type": 17, "protocol_version": "2.0", "children": {"1": {"child_id": 1, "child_type": 6, "values": {"0": ' + num + "}}}}}",
                     '{"1": {"sensor_id": ' + num + ', "type": 17, "protocol_version": "2.0", "children": {}}}'):
            yield {"kind": "content", "origin": "number-spelling", "data": text}
    for depth in (1000, 100000):
        yield {"kind": "content", "origin": "deep", "data": "[" * depth}
        yield {"kind": "content", "origin": "deep", "data": '{"1":' * depth}
        yield {"kind": "content", "origin": "deep", "data": '{"1":{"node_id":1,"node_type":1,"protocol_version":"2","children":' + '{"1":' * depth}
    # one gateway object under 1-3 event loops in turn, overlapping loads in each
    for content in LOOP_CONTENTS:
        for loops in (1, 2, 3):
            yield {"kind": "loops", "content": content, "how": "gather", "loops": loops}
            yield {"kind": "loops", "content": content, "how": "gather", "loops": loops, "width": 4}
            yield {"kind": "loops", "content": content, "how": "started", "loops": loops}
    for what in SPECIALS:
        yield {"kind": "special", "what": what}
        yield {"kind": "special", "what": what, "debug_log": True}
        yield {"kind": "special", "what": what, "prior_session": True}
        for name in c15.FILE_NAMES[2:]:
            yield {"kind": "special", "what": what, "file_name": name}
    for name in c15.FILE_NAMES[2:]:
        for text in ("", "{}", "garbage", '{"1": {"node_id": 1, "node_ty', "[]", '{"1": {"node_id": 1, "node_type": 17, "protocol_version": "2.0"}}', "\x80\x04\x95", "\x80\x04}q\x00."):
            yield {"kind": "content", "origin": "modes", "data": text, "file_name": name}
    for text in ("", "{}", " ", "\n", '{"1": {"node_id": 1, "node_type": 17, "protocol_version": "2.0"}}', '{"1": {"node_id": 1, "node_ty', "[]", "null",
                 '{"1": {"sensor_id": 1, "type": 17, "protocol_version": "2.0", "children": {}}}', '{"7": {"node_id": 7, "node_type": 17, "protocol_version": "2.0", "children": {}}, "9": {"node_id": 9, "node_type": 18, "protocol_version": "2.0"}}'):
        for prefill in (False, True):
            yield {"kind": "content", "origin": "modes", "data": text, "debug_log": True, "prefill": prefill}
            yield {"kind": "content", "origin": "modes", "data": text, "prior_session": True, "prefill": prefill}
    fixture = {"1": {"sensor_id": 1, "children": {"1": {"id": 1, "type": 38, "description": "", "values": {"49": "x"}}}, "type": 17, "sketch_name": "s", "sketch_version": "1", "battery_level": 0, "protocol_version": "2.3.2", "heartbeat": 0}}
    text = json.dumps(fixture, indent=2)
    for cut in range(len(text) + 1):
        yield {"kind": "content", "origin": "prefix", "data": text[:cut]}
    for key in list(fixture["1"]):
        for value in (None, 5, "x", [], {}, True, 1.5, -1, 300, "5", float("inf"), float("-inf"), float("nan"), 1e308, -0.0, 2.5, 1e22, 2**63, -(2**63), 10**40,
                      "\ud800", "a\udfffb", "\udc00\ud800", "\x00", "x" * 70000, "\ufeff", "٣", "²"):
            doc = json.loads(text)
            doc["1"][key] = value
            yield {"kind": "content", "origin": "mutated", "data": json.dumps(doc)}
    for value in (None, 5, "x", [], {}, True, 1.5, [1], {"id": 1}, {"x": 1}, float("inf"), float("-inf"), float("nan"), 1e308, 2**63, 10**40, "\ud800", "a\udfffb", "\udc00\ud800", "\x00"):
        doc = json.loads(text)
        doc["1"]["children"]["1"] = value
        yield {"kind": "content", "origin": "mutated", "data": json.dumps(doc)}
        doc = json.loads(text)
        doc["1"]["children"] = {"x": value} if value is not None else {"x": doc["1"]["children"]["1"]}
        yield {"kind": "content", "origin": "mutated", "data": json.dumps(doc)}
        for ckey in ("id", "type", "description", "values"):
            doc = json.loads(text)
            doc["1"]["children"]["1"][ckey] = value
            yield {"kind": "content", "origin": "mutated", "data": json.dumps(doc)}
        doc = json.loads(text)
        doc["1"]["children"]["1"]["values"] = {"49": value, "x": "1"}
        yield {"kind": "content", "origin": "mutated", "data": json.dumps(doc)}
    rec = {"node_id": 1, "node_type": 17, "protocol_version": "2.0"}
    # file TEXT that no dump of a Python object produces: repeated keys at every level, comments, trailing commas, odd number spellings,
    # byte-order marks, compressed or binary content that starts like a known format
    good = '{"node_id": 1, "node_type": 17, "protocol_version": "2.0", "children": {"1": {"child_id": 1, "child_type": 6, "values": {"0": "1"}}}}'
    raw_texts = [
        '{"1": ' + good + ', "1": ' + good + '}',
        '{"1": {"node_id": 1, "node_id": 1, "node_type": 17, "protocol_version": "2.0"}}',
        '{"1": {"node_id": 1, "node_type": 17, "protocol_version": "2.0", "children": {"1": {"child_id": 1, "child_type": 6}, "1": {"child_id": 1, "child_type": 7}}}}',
        '{"1": {"node_id": 1, "node_type": 17, "protocol_version": "2.0", "children": {"1": {"child_id": 1, "child_type": 6, "values": {"0": "a", "0": "b"}}}}}',
        '{"1": ' + good + ', "01": ' + good + '}', '{"1": ' + good + ',}', '{"1": ' + good + '} // comment', '/* c */ {"1": ' + good + '}', "{'1': 1}",
        '{"1": {"node_id": 01, "node_type": 17, "protocol_version": "2.0"}}', '{"1": {"node_id": 1.0, "node_type": 1e1, "protocol_version": "2.0"}}',
        '{"1": {"node_id": +1, "node_type": 17, "protocol_version": "2.0"}}', '{"1": {"node_id": 0x1, "node_type": 17, "protocol_version": "2.0"}}',
        '\ufeff{"1": ' + good + '}', '{"1": ' + good + '}\x00', '{"1": ' + good + '}\n{"2": ' + good + '}', "{}{}", '{"1": ' + good[:-1],
    ]
    for text in raw_texts:
        yield {"kind": "content", "origin": "raw-text", "data": text.encode("utf-8").decode("latin-1")}
    import gzip as _gzip
    import zlib as _zlib

    packed = _gzip.compress(('{"1": ' + good + '}').encode(), mtime=0)
    blobs = [packed, packed[:2], packed[:10], packed[:-8], packed[:-1], packed[:10] + b"garbage" * 5, b"\x1f\x8b", b"\x1f\x8b\x08", _zlib.compress(b"{}"), b"PK\x03\x04", b"BZh9", b"\xfd7zXZ\x00",
             b"\x28\xb5\x2f\xfd", b"\x89PNG\r\n", b"SQLite format 3\x00", b"\x80\x04\x95", b"\x00\x00\x00\x00", b"\xff\xfe{\x00}\x00", b"\xfe\xff\x00{\x00}", b"+ADw-"]
    for blob in blobs:
        yield {"kind": "content", "origin": "binary", "data": blob.decode("latin-1")}
    for key in ("²", "1³", "①", "٣", "१", "9" * 4400, "-" + "9" * 4400, "\ud800", "1\x00", " 1", "1 ", "+1", "1_0", "0x1", "1e1"):
        yield {"kind": "content", "origin": "odd-key", "data": json.dumps({key: rec, "2": dict(rec, node_id=2)})}
        yield {"kind": "content", "origin": "odd-key", "data": json.dumps({"1": dict(rec, children={key: {"child_id": 1, "child_type": 6, "values": {key: "1"}}})})}
    for count in (255, 256, 257, 300, 1000):
        yield {"kind": "content", "origin": "many-entries", "data": json.dumps({str(i): dict(rec, node_id=i % 256) for i in range(count)})}
        yield {"kind": "content", "origin": "many-entries", "data": json.dumps({str(i): 5 for i in range(count)})}
        yield {"kind": "content", "origin": "many-entries", "data": json.dumps({f"k{i}": dict(rec, node_id=7) for i in range(count)})}
    for extra in ({"sensor_id": 1}, {"sensor_id": 2}, {"type": 17}, {"type": None}, {"node_id": 1, "sensor_id": 1, "type": 18, "node_type": 17}):
        for prefill in (False, True):
            yield {"kind": "content", "origin": "both-spellings", "data": json.dumps({"1": dict(rec, **extra)}), "prefill": prefill}
    for extra in ({"id": 1}, {"id": 9}, {"type": 6}, {"id": 1, "type": 6}):
        child = dict({"child_id": 1, "child_type": 6, "description": "", "values": {"0": "1"}}, **extra)
        yield {"kind": "content", "origin": "both-spellings", "data": json.dumps({"1": dict(rec, children={"1": child})})}
    for ckey, cid in (("7", 1), ("1", 7), ("x", 1), ("-1", 1), ("1", 300), ("1", -1), ("01", 1)):
        for layout in ("native", "legacy"):
            for values in ({"0": "1"}, {}):
                child = {"child_id": cid, "child_type": 6, "description": "", "values": values} if layout == "native" else {"id": cid, "type": 6, "description": "", "values": values}
                node = {"node_id": 1, "node_type": 17, "protocol_version": "2.0", "children": {ckey: child}} if layout == "native" else {"sensor_id": 1, "type": 17, "protocol_version": "2.0", "children": {ckey: child}}
                for prefill in (False, True):
                    yield {"kind": "content", "origin": "key-mismatch", "data": json.dumps({"1": node}), "prefill": prefill}
    native = {"1": {"node_id": 1, "node_type": 17, "protocol_version": "2.0", "sketch_name": "", "sketch_version": "", "battery_level": 0, "heartbeat": 0, "sleeping": False,
                    "children": {"1": {"child_id": 1, "child_type": 6, "description": "", "values": {"0": "1"}}}}}
    for key in list(native["1"]):
        for value in (None, 5, "x", [], {}, True, 1.5, -1, 300, "5", 101):
            doc = json.loads(json.dumps(native))
            doc["1"][key] = value
            yield {"kind": "content", "origin": "mutated", "data": json.dumps(doc)}
        doc = json.loads(json.dumps(native))
        del doc["1"][key]
        yield {"kind": "content", "origin": "mutated", "data": json.dumps(doc)}
    for top in (None, 5, "x", [], [1], [{}], True, 1.5, {"1": 5}, {"1": None}, {"1": []}, {"1": {}}, {"x": fixture["1"]}, {"1": "node"}):
        yield {"kind": "content", "origin": "json", "data": json.dumps(top)}


def enumerate_cases(tier: str):
    for case in _enumerate_base(tier):
        yield case
        if case.get("origin") in ("mutated", "key-mismatch", "json", "modes") and "warnings" not in case and not case.get("debug_log") and not case.get("prior_session"):
            # the same content in a process that turns warnings into errors (python -W error, pytest's filterwarnings = error)
            yield {**case, "warnings": "error"}


def opt_cases(tier: str):
    """Cases also executed by an interpreter started with -O (see vf/optpass.py): special paths, prefixes, mutated records."""
    for idx, case in enumerate(_enumerate_base(tier)):
        if case.get("kind") == "special" or (case.get("origin") in ("mutated", "prefix", "json", "key-mismatch", "modes") and idx % 3 == 0):
            yield case


VALID_FILE = '{"7": {"node_id": 7, "node_type": 17, "protocol_version": "2.0", "sketch_name": "s", "sketch_version": "1", "battery_level": 0, "heartbeat": 0, "sleeping": false, "children": {}}}'
LOOP_CONTENTS = {"valid": VALID_FILE, "empty": "", "truncated": VALID_FILE[:40], "wrong-shape": "[1, 2]", "bad-type": VALID_FILE.replace("17", '"x"')}


def _run_loops(case: dict, scratch: str, path: str) -> Outcome:
    """One gateway object (and its Persistence) is used under several event loops in turn (asyncio.run called again after a restart of the
    application's main coroutine); in each, loads of the same file overlap (two tasks load at once; or the background saver is started and a
    load follows at once). Whatever waits for whatever: a load succeeds or raises the persistence read error."""
    with open(path, "w", encoding="utf-8") as fil:
        fil.write(LOOP_CONTENTS[case["content"]])
    gateway = Gateway(env.RecordingTransport(), Config(persistence_file=path))
    classes = (f"origin=loops:{case['content']}:{case['how']}", f"loops={case['loops']}")
    seen_error = False
    for number in range(case["loops"]):

        async def one_round() -> list:
            persistence = gateway.persistence
            if case["how"] == "gather":
                return list(await asyncio.gather(*(persistence.load() for _ in range(case.get("width", 2))), return_exceptions=True))
            results = []
            try:
                await persistence.start()  # (the saver's first save is under way or about to start)
            except Exception as err:  # noqa: BLE001
                results.append(err)
            results += list(await asyncio.gather(persistence.load(), persistence.load(), return_exceptions=True))
            try:
                await persistence.stop()
            except Exception as err:  # noqa: BLE001
                results.append(err)
            return results

        for err in env.run(one_round()):
            if isinstance(err, PersistenceReadError):
                seen_error = True
            elif isinstance(err, BaseException):
                out = fail(f"load-leak:loops:{env.exc_sig(err)}", f"event loop #{number + 1}, file {case['content']}, {case['how']}: {type(err).__name__}: {str(err)[:200]}")
                out.classes = classes
                return out
        if case["content"] == "valid" and case["how"] == "gather" and (seen_error or sorted(env.snapshot(gateway.nodes)) != ["7"]):
            out = fail("special:loops:valid-file-not-loaded", f"event loop #{number + 1}: concurrent loads of a valid file: error={seen_error}, registry {sorted(env.snapshot(gateway.nodes))}")
            out.classes = classes
            return out
    return Outcome(ok=True, nontrivial=True, classes=classes)


def run_case(case: dict) -> Outcome:
    scratch = tempfile.mkdtemp(prefix="vf-c14-", dir=c13.SCRATCH_BASE)
    path = os.path.join(scratch, case.get("file_name") or "persistence.json")
    if case.get("kind") == "loops":
        try:
            with env.debug_logging(bool(case.get("debug_log"))):
                return _run_loops(case, scratch, path)
        finally:
            shutil.rmtree(scratch, ignore_errors=True)
    info = {"json_ok": False, "raised": False}
    origin = case.get("origin", case.get("what", "?"))

    async def go() -> Outcome | None:
        gateway = Gateway(env.RecordingTransport(), Config(persistence_file=path))
        if case.get("prior_session"):
            # the same Persistence object already served a session (started and stopped); what it left behind is removed before the set-up
            await gateway.persistence.start()
            await gateway.persistence.stop()
            if os.path.isfile(path):
                os.unlink(path)
        if case["kind"] == "special":
            what = case["what"]
            if what == "missing-with-registry":
                env.install_registry(gateway.nodes, {"3": {"children": {"1": {"child_type": 6, "values": {"0": "1"}}}, "sketch_name": "s"}})
            elif what == "empty-file":
                open(path, "w").close()
            elif what == "directory":
                os.mkdir(path)
            elif what == "missing-with-odd-text":
                # the registry (loaded from another file, or reported by nodes) holds text that only an escaping writer can store
                env.install_registry(gateway.nodes, {"3": {"sketch_name": "temp \udcb0C", "sketch_version": "é\ud800", "children": {"1": {"child_type": 6, "description": "日本\udfff", "values": {"0": "21\udcb0"}}}}})
            elif what == "missing-after-failed-load":
                # the same Persistence object failed to load a damaged file; the file was removed (by the operator) since
                env.install_registry(gateway.nodes, {"6": {"sketch_name": "kept in memory"}})
                with open(path, "w", encoding="utf-8") as fil:
                    fil.write('{"1": {"node_id": 1, "node_ty')
                try:
                    await gateway.persistence.load()
                except PersistenceReadError:
                    pass
                except Exception as err:  # noqa: BLE001
                    return fail(f"load-leak:{env.exc_sig(err)}", f"{what}: first load raised {err!r}")
                else:
                    return fail("special:damaged-file-loaded", "a truncated file loaded without an error")
                os.unlink(path)
            elif what in ("missing-after-save", "missing-after-load"):
                # the same Persistence object wrote or read the file earlier; the file has been removed since and the registry is unchanged
                env.install_registry(gateway.nodes, {"5": {"sketch_name": "saved before", "children": {"1": {"child_type": 6, "values": {"0": "1"}}}}})
                try:
                    await gateway.persistence.save()
                    if what == "missing-after-load":
                        await gateway.persistence.load()
                except Exception as err:  # noqa: BLE001
                    return fail(f"load-leak:setup:{env.exc_sig(err)}", f"{what}: saving and loading a valid registry in a writable directory raised {err!r}")
                os.unlink(path)
            elif what == "missing-dangling-symlink":
                # the configured path is a symbolic link whose target does not exist yet (a data directory that was just mounted empty)
                env.install_registry(gateway.nodes, {"8": {"sketch_name": "behind a link"}})
                os.symlink(os.path.join(scratch, "target-of-the-link.json"), path)
            elif what == "missing-concurrent-loads":
                # two tasks load the same missing file at the same time (two gateways sharing a registry file start together)
                env.install_registry(gateway.nodes, {"8": {"sketch_name": "loaded twice"}})
                second = Gateway(env.RecordingTransport(), Config(persistence_file=path))
                env.install_registry(second.nodes, {"8": {"sketch_name": "loaded twice"}})
                results = await asyncio.gather(gateway.persistence.load(), second.persistence.load(), return_exceptions=True)
                for err in results:
                    if isinstance(err, BaseException) and not isinstance(err, PersistenceReadError):
                        return fail(f"load-leak:{env.exc_sig(err)}", f"{what}: one of two concurrent loads of a missing file raised {err!r}")
                    if isinstance(err, PersistenceReadError):
                        return fail(f"special:{what}:read-error", f"{what}: one of two concurrent loads of a missing file raised {err!r}")
            elif what == "missing-other-path":
                # load(path) is pointed at a file that does not exist while the configured file does
                env.install_registry(gateway.nodes, {"8": {"sketch_name": "configured file exists"}})
                try:
                    await gateway.persistence.save()
                except Exception as err:  # noqa: BLE001
                    return fail(f"load-leak:setup:{env.exc_sig(err)}", f"{what}: saving a valid registry in a writable directory raised {err!r}")
                before_other = env.snapshot(gateway.nodes)
                try:
                    await gateway.persistence.load(os.path.join(scratch, "another-file-that-is-missing.json"))
                except PersistenceReadError as err:
                    return fail(f"special:{what}:read-error", f"{what}: load(path) of a missing file raised {err!r}")
                except Exception as err:  # noqa: BLE001
                    return fail(f"load-leak:{env.exc_sig(err)}", f"{what}: load(path) of a missing file raised {err!r}")
                if env.snapshot(gateway.nodes) != before_other:
                    return fail(f"special:{what}:registry-changed", f"{what}: registry changed by load")
                return None
            elif what in ("other-path-native-unwritable-own", "other-path-legacy-unwritable-own"):
                # load(path) reads a file kept elsewhere (native or pymysensors layout) while the configured file sits where nothing can be written
                owner = Gateway(env.RecordingTransport(), Config(persistence_file=env.UNWRITABLE_FILE))
                reg = {"7": {"node_id": 7, "node_type": 17, "protocol_version": "2.0", "sketch_name": "s", "sketch_version": "1", "battery_level": 5, "heartbeat": 0, "sleeping": False,
                             "children": {"1": {"child_id": 1, "child_type": 6, "description": "", "values": {"0": "1"}}}}}
                with open(path, "w", encoding="utf-8") as fil:
                    json.dump(reg if "native" in what else c13._legacy(reg, False), fil)
                try:
                    await owner.persistence.load(path)
                except PersistenceReadError as err:
                    return fail(f"special:{what}:read-error", f"{what}: a well-formed file was rejected: {err!r}")
                except Exception as err:  # noqa: BLE001
                    return fail(f"load-leak:{env.exc_sig(err)}", f"{what}: load(path) raised {err!r}")
                if sorted(env.snapshot(owner.nodes)) != ["7"]:
                    return fail(f"special:{what}:not-loaded", f"{what}: the registry holds {sorted(env.snapshot(owner.nodes))} after loading a file with node 7")
                return None
            elif what == "missing-after-start":
                env.install_registry(gateway.nodes, {"4": {"sketch_name": "started first"}})
                await gateway.persistence.start()
                await asyncio.sleep(0)
                if os.path.exists(path):
                    os.unlink(path)  # the file disappears (or never existed) while the scheduled save is asleep
            before = env.snapshot(gateway.nodes)
            try:
                await gateway.persistence.load()
            except PersistenceReadError:
                if what != "directory":
                    return fail(f"special:{what}:read-error", f"{what}: load raised PersistenceReadError")
                return None
            except Exception as err:  # noqa: BLE001
                return fail(f"load-leak:{env.exc_sig(err)}", f"{what}: load raised {err!r}")
            if what == "directory":
                return fail("special:directory:no-error", "path is a directory but load returned")
            if env.snapshot(gateway.nodes) != before:
                return fail(f"special:{what}:registry-changed", f"{what}: registry changed by load")
            if what == "missing-after-start":
                try:
                    exists = os.path.isfile(path)
                finally:
                    await gateway.persistence.stop()
                if not exists:
                    return fail("special:missing:not-created", "missing file was not created by load (scheduled save already started)")
                return None
            if what.startswith("missing"):
                if not os.path.isfile(path):  # (follows a symbolic link)
                    return fail("special:missing:not-created", "missing file was not created by load")
                status, after = await c13._load(path)
                if status != "ok" or after != before:
                    return fail("special:missing:created-file-differs", f"created file loads to {after!r}, registry is {before!r}")
            return None
        data = case["data"].encode("latin-1", "replace")
        with open(path, "wb") as fil:
            fil.write(data)
        if case.get("prefill"):
            # reloading into a registry that already holds nodes (second session, or nodes registered before the load)
            env.install_registry(gateway.nodes, {"1": {"children": {"1": {"child_type": 6, "values": {"0": "old"}}}}, "3": {"children": {"9": {"child_type": 3}}}})
        held = env.snapshot(gateway.nodes)
        try:
            json.loads(data.decode("utf-8"))
            info["json_ok"] = True
        except (ValueError, RecursionError):
            pass
        try:
            await gateway.persistence.load()
        except PersistenceReadError:
            info["raised"] = True
            if data == b"":
                return fail("empty-file-rejected", "an empty file was rejected")
            return None
        except Exception as err:  # noqa: BLE001
            return fail(f"load-leak:{env.exc_sig(err)}", f"file content {data[:300]!r} ({origin}): load raised {type(err).__name__}: {str(err)[:200]}")
        if data == b"" and env.snapshot(gateway.nodes) != held:
            return fail("empty-file-not-empty-registry", "an empty file loaded as something other than an empty registry (the registry changed)")
        return None

    try:
        with env.debug_logging(bool(case.get("debug_log"))), env.strict_warnings(case.get("warnings") == "error"):
            bad = env.run(go())
    finally:
        shutil.rmtree(scratch, ignore_errors=True)
    classes = (f"origin={origin}", "json-valid" if info["json_ok"] else "not-json", "rejected" if info["raised"] else "loaded")
    if bad is not None:
        bad.classes = classes
        return bad
    return Outcome(ok=True, nontrivial=(info["json_ok"] and info["raised"]) or case["kind"] == "special", classes=classes)


FUZZ_TOKENS = [b'{', b'}', b'"', b':', b',', b'[', b']', b'null', b'"node_id"', b'"node_type"', b'"protocol_version"', b'"children"', b'"values"', b'"child_id"',
               b'"child_type"', b'"sensor_id"', b'"type"', b'"id"', b'"battery_level"', b'"sleeping"', b'true', b'1e999', b'-1', b'256', b'\xff']


def extra_engines(tier: str, seed: int):
    import sys

    from vf import fuzzrun
    from vf.runner import Stats

    if tier != "thorough" or not fuzzrun.available():
        return Stats(), {"atheris": "not run (quick tier)" if tier != "thorough" else "atheris not importable: fuzz engine skipped"}
    seeds = []
    for name in ("test_aiomysensors_persistence.json", "test_pymysensors_persistence.json"):
        path = os.path.join(os.environ.get("VERIF_REPO_SRC", "/repo/src"), "..", "tests", "fixtures", name)
        try:
            with open(path, "rb") as fil:
                seeds.append(fil.read())
        except OSError:
            pass
    seeds.append(b'{"1": {"node_id": 1, "node_type": 17, "protocol_version": "2.0", "children": {"1": {"child_id": 1, "child_type": 6, "values": {"0": "1"}}}}}')
    crashes, info = fuzzrun.campaign("c14_file.py", seed, 60000, seeds, FUZZ_TOKENS, 1024, 4)
    return fuzzrun.fold(sys.modules[__name__], crashes, info, lambda blob: {"kind": "content", "origin": "atheris", "data": blob.decode("latin-1")})
