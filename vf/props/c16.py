"""C16 - gateway context: load on entry, periodic and final save, no leftovers (DESIGN 4.16)."""

from __future__ import annotations

import asyncio
import itertools
import json
import os
import shutil
import tempfile

from hypothesis import strategies as st

from aiomysensors.exceptions import AIOMySensorsError, TransportError, TransportFailedError
from aiomysensors.gateway import Config, Gateway
from aiomysensors.model.node import Node

from vf import env
from vf.props import c03, c13
from vf.runner import Outcome, fail
from vf.vloop import Deadlock, run_virtual

ID = "C16"
LEVEL = "fault_enumeration"
DESIGN_REF = "4.16"
RULE = (
    "cases = transport kind (plain fake whose connect/disconnect yield to the loop, plain fake whose connect/disconnect never suspend / StreamTransport on in-memory streams / MQTTClient on a fake aiomqtt client built around aiomqtt's "
    "real message iterator) x fault (none, connect raises, a hanging connect abandoned by a timeout, body raises, the body task really cancelled, disconnect raises, body+disconnect) x initial file (missing, empty, "
    "generated registry, a 60-node registry) x body script: mutate the registry (add a node, or change the loaded nodes in place as the message handlers do), then leave the context after k loop iterations (k=0..12: saver not started, inside "
    "open/write/close of the first save, parked in its sleep) or let T seconds of virtual time pass (T in 1, 899, 900, 901, 1800, 5000, "
    "generated) and leave k iterations after the timer fired. Everything runs on a deterministic virtual-time event loop with an inline "
    "executor, so 15 minutes cost microseconds and a cancellation can land between any two file operations. Oracle: entry loads the file; "
    "one virtual second after entry the file equals the registry; a change made at time t is on disk by t+901 s; on exit the exception "
    "leaving 'async with' is the body's or the injected fault's (never CancelledError), disconnect ran exactly once, the file equals the "
    "registry at exit and no task is left; a failing connect propagates and leaves no task. The k/fault/kind/file product is enumerated; "
    "for fault-free runs a second session on the same gateway object must behave the same; Hypothesis adds generated T/k/registries. Non-trivial = exit while the saver is not parked in its sleep, or an injected fault, or "
    "virtual time crossing a save boundary; distinct = distinct case JSON."
    " Round 5: the body may raise any class of the library's exception hierarchy or common built-ins (`body_exc`); a `bystander` gateway in the same loop must keep saving on schedule and leave nothing behind."
    ' Round 6: `new_loop` - after the first session the same gateway object runs a full session under a second event loop.'
    ' Round 7: fault `disconnect-hang` (the leaving task is cancelled while disconnect hangs).'
    ' Round 8: fault `connect-once` (retry on the same object after a failed connect).'
    ' Round 9: `reader_task` (another task suspended in gateway.listen() at exit).'
    ' Round 11: `enter_task` / `exit_task` (the context is entered / left by a short-lived task of its own); `late_change` (the registry changes while a slow disconnect is under way: the file equals the registry when the context has been left).'
    ' Round 10: `traffic` (that task handles a message that changes nothing every `traffic` virtual seconds while the deadlines are checked).'
    ' Round 12: `mutate=clear`; `eager_tasks`; `between_edit`; deadline checks re-read while a save is rewriting the file.'
    ' Round 13: `file_name`; `threads` kind (real worker threads, off the virtual loop).'
    ' Round 14: MQTT goodbye faults (`disconnect-oserror`, `body+disconnect-oserror`, `disconnect-mqtterror`, `disconnect-hang` on the mqtt kind).'
)
ASSUMPTIONS = [
    "on the virtual loop threads are replaced by an inline executor: outcomes are the same at file-operation granularity; thread races are only explored by the three `threads` cases (real loop, real worker threads, a registry that is slow to read off the loop thread)",
    "three loop iterations of grace after the context exit before asyncio.all_tasks() is inspected",
]
DELETABLE = ()

KINDS = ("plain", "plain-nosuspend", "stream", "mqtt")
FAULTS = ("none", "connect", "body", "disconnect", "body+disconnect", "connect-timeout", "cancel-body", "disconnect-hang", "connect-once")
FILES = ("missing", "empty", "registry", "big")
BIG_REGISTRY = {str(i): {"node_id": i, "node_type": 17, "protocol_version": "2.0", "sketch_name": f"node {i}", "sketch_version": "1", "battery_level": i % 100, "heartbeat": 0, "sleeping": False, "children": {"1": {"child_id": 1, "child_type": 6, "description": "", "values": {"0": str(i)}}}} for i in range(1, 61)}
FILE_REGISTRY = {"3": {"node_id": 3, "node_type": 17, "protocol_version": "2.2.0", "sketch_name": "from file", "sketch_version": "1", "battery_level": 50,
                       "heartbeat": 0, "sleeping": True, "children": {"1": {"child_id": 1, "child_type": 6, "description": "t", "values": {"0": "20.5"}}}}}


def budgets(tier: str) -> dict:
    if tier == "quick":
        return {"examples": 400, "shards": 4, "enum_shards": 4}
    return {"examples": 20000, "shards": 16, "enum_shards": 16}


def enumerate_cases(tier: str):
    # real worker threads, registry changing while saves run (the only cases of this module off the virtual loop)
    for changes in (1, 5, 20):
        yield {"kind": "threads", "changes": changes}
    # the body leaves with every exception class of the library (and some others): the exit duties do not depend on which
    for kind in KINDS:
        for name in BODY_EXCS:
            for k in (0, 9):
                yield {"kind": kind, "fault": "body", "file": "registry", "k": k, "T": None, "mutate": True, "body_exc": name}
            yield {"kind": kind, "fault": "body", "file": "registry", "k": 2, "T": 901, "mutate": True, "body_exc": name}
    # another task of the application is iterating gateway.listen() while this one leaves the context
    for kind in ("plain", "plain-nosuspend"):
        for fault in ("none", "body", "cancel-body", "disconnect"):
            for k, T in ((0, None), (9, None), (2, 901)):
                yield {"kind": kind, "fault": fault, "file": "registry", "k": k, "T": T, "mutate": True, "reader_task": True}
    # ... and that task is kept busy: traffic that changes nothing in the registry arrives all the time (more often than the save interval)
    for kind in ("plain", "plain-nosuspend"):
        for period in (0.5, 60, 450, 899, 900):
            for k, T in ((2, 901), (0, 1800), (3, 5000), (9, None)):
                for mutate in (True, "in-place"):
                    yield {"kind": kind, "fault": "none", "file": "registry", "k": k, "T": T, "mutate": mutate, "reader_task": True, "traffic": period}
    # the context is entered by a short-lived set-up task and/or left by a shutdown task; the registry still changes while a slow link closes
    for kind in KINDS:
        for fault in ("none", "body"):
            for k, T in ((0, None), (9, None), (2, 901), (0, 1800), (3, 5000)):
                for tasks in ({"enter_task": True}, {"exit_task": True}, {"enter_task": True, "exit_task": True}):
                    yield {"kind": kind, "fault": fault, "file": "registry", "k": k, "T": T, "mutate": True, **tasks}
                    if fault == "none":
                        yield {"kind": kind, "fault": fault, "file": "registry", "k": k, "T": T, "mutate": True, "reenter": True, **tasks}
    for kind in ("plain", "plain-nosuspend"):
        for fault in ("none", "body", "disconnect"):
            for k, T in ((0, None), (9, None), (2, 901)):
                yield {"kind": kind, "fault": fault, "file": "registry", "k": k, "T": T, "mutate": True, "late_change": True}
                yield {"kind": kind, "fault": fault, "file": "missing", "k": k, "T": T, "mutate": "in-place", "late_change": True, "reader_task": True}
    # the registry file is called something else (no extension, another extension, dots in the name)
    from vf.props.c15 import FILE_NAMES

    for name in FILE_NAMES[2:] + ("gateway.1", "nodes.db"):
        for kind in ("plain", "stream"):
            for initial in ("registry", "missing"):
                for k, T in ((0, None), (9, None), (2, 901)):
                    yield {"kind": kind, "fault": "none", "file": initial, "k": k, "T": T, "mutate": True, "file_name": name}
                yield {"kind": kind, "fault": "none", "file": initial, "k": 2, "T": 901, "mutate": "in-place", "file_name": name, "reenter": True}
    # every node is removed during the session: the file follows
    for kind in KINDS:
        for initial in ("registry", "big", "missing"):
            if initial == "big" and kind not in ("plain", "stream"):
                continue
            for fault in ("none", "body"):
                for k, T in ((0, None), (9, None), (2, 901), (0, 1800)):
                    yield {"kind": kind, "fault": fault, "file": initial, "k": k, "T": T, "mutate": "clear"}
                    if fault == "none":
                        yield {"kind": kind, "fault": fault, "file": initial, "k": k, "T": T, "mutate": "clear", "reenter": True}
    # the application's loop starts tasks eagerly (asyncio.eager_task_factory)
    for kind in KINDS:
        for fault in ("none", "body", "cancel-body"):
            for k, T in ((0, None), (1, None), (9, None), (2, 901), (0, 1800)):
                yield {"kind": kind, "fault": fault, "file": "registry", "k": k, "T": T, "mutate": True, "eager_tasks": True}
                if fault == "none":
                    yield {"kind": kind, "fault": fault, "file": "missing", "k": k, "T": T, "mutate": True, "eager_tasks": True, "reenter": True}
    # the same gateway object lives on under a second event loop (asyncio.run called again)
    for kind in KINDS:
        for fault in ("none", "body", "cancel-body"):
            for k, T in ((0, None), (9, None), (2, 901)):
                yield {"kind": kind, "fault": fault, "file": "registry", "k": k, "T": T, "mutate": True, "new_loop": True}
    # the MQTT client's goodbye to the broker fails with something that is no MqttError (the socket layer's OSError), is refused with an MqttError,
    # or is never acknowledged (the leaving task is cancelled 5 s later): the listener task of the client is gone all the same
    for fault in ("disconnect-oserror", "body+disconnect-oserror", "disconnect-mqtterror", "disconnect-hang"):
        for initial in ("missing", "registry"):
            for k, T in ((0, None), (3, None), (9, None), (12, None), (2, 901), (2, 1801)):
                yield {"kind": "mqtt", "fault": fault, "file": initial, "k": k, "T": T, "mutate": True}
    # a second gateway in the same loop keeps saving on schedule whatever happens to this one
    for kind in KINDS:
        for fault in FAULTS:
            if not kind.startswith("plain") and ("disconnect" in fault or fault == "connect-timeout"):
                continue
            if kind == "plain-nosuspend" and fault == "connect-timeout":
                continue
            if kind == "mqtt" and fault == "connect-once":
                continue
            for k, T in ((0, None), (9, None), (2, 901)):
                yield {"kind": kind, "fault": fault, "file": "registry", "k": k, "T": T, "mutate": True, "bystander": True}
    for kind, fault, initial in itertools.product(KINDS, FAULTS, FILES):
        if kind == "plain-nosuspend" and fault in ("connect-timeout", "disconnect-hang"):
            continue
        if fault == "connect-once" and (initial == "big" or kind == "mqtt"):
            continue  # (MQTTClient refuses a second connect after a refused one with RuntimeError: outside the listed properties, see DESIGN 8.2)
        if initial == "big" and (fault not in ("none", "cancel-body") or kind not in ("plain", "stream")):
            continue
        if not kind.startswith("plain") and ("disconnect" in fault or fault == "connect-timeout"):
            continue  # the built-in transports absorb their own disconnect errors; a hanging connect is modelled on the plain kind
        for k in range(0, 13):
            yield {"kind": kind, "fault": fault, "file": initial, "k": k, "T": None, "mutate": True}
            if fault == "none":
                yield {"kind": kind, "fault": fault, "file": initial, "k": k, "T": None, "mutate": True, "reenter": True}
                if k in (0, 9):
                    yield {"kind": kind, "fault": fault, "file": initial, "k": k, "T": None, "mutate": True, "reenter": True, "between_edit": True}
                    yield {"kind": kind, "fault": fault, "file": initial, "k": k, "T": 901, "mutate": "in-place", "reenter": True, "between_edit": True}
                yield {"kind": kind, "fault": fault, "file": initial, "k": k, "T": None, "mutate": True, "prefill": True}
        for T in (1, 899, 900, 901, 1800, 5000):
            for k in (0, 1, 2, 3, 5):
                yield {"kind": kind, "fault": fault, "file": initial, "k": k, "T": T, "mutate": True}
                if fault == "none" and T in (1, 901):
                    yield {"kind": kind, "fault": fault, "file": initial, "k": k, "T": T, "mutate": True, "reenter": True}
                if initial in ("registry", "big"):
                    yield {"kind": kind, "fault": fault, "file": initial, "k": k, "T": T, "mutate": "in-place"}
            if fault == "none":
                for k in (4, 9, 30, 70):
                    yield {"kind": kind, "fault": fault, "file": initial, "k": k, "T": T, "mutate": "churn"}
        if fault == "none":
            for k in (3, 8, 20, 45, 90, 200):
                yield {"kind": kind, "fault": fault, "file": initial, "k": k, "T": None, "mutate": "churn"}


def strategy(tier: str):
    return st.fixed_dictionaries(
        {
            "kind": st.sampled_from(KINDS),
            "fault": st.sampled_from(FAULTS),
            "file": st.sampled_from(FILES),
            "k": st.integers(0, 20),
            "T": st.one_of(st.none(), st.sampled_from((1, 899, 900, 901, 1799, 1800, 1801, 2700, 5000)), st.integers(1, 10000), st.floats(0.5, 4000.0).map(lambda x: round(x, 1))),
            "mutate": st.sampled_from((True, True, False, "in-place", "churn", "clear")),
            "reenter": st.booleans(),
            "prefill": st.sampled_from((False, False, True)),
            "body_exc": st.sampled_from(BODY_EXCS),
            "bystander": st.sampled_from((False, False, True)),
            "new_loop": st.sampled_from((False, False, True)),
            "reader_task": st.sampled_from((False, False, True)),
            "traffic": st.sampled_from((0, 0, 0.5, 60, 450, 899, 900, 1000)),
            "enter_task": st.sampled_from((False, False, True)),
            "exit_task": st.sampled_from((False, False, True)),
            "late_change": st.sampled_from((False, False, True)),
            "between_edit": st.sampled_from((False, False, True)),
            "eager_tasks": st.sampled_from((False, False, False, True)),
        }
    ).filter(lambda c: c["kind"] != "threads").filter(lambda c: not (c["kind"] == "mqtt" and c["fault"] == "connect-once")).filter(lambda c: c["kind"] == "plain" or (c["kind"] == "plain-nosuspend" and c["fault"] not in ("connect-timeout", "disconnect-hang")) or ("disconnect" not in c["fault"] and c["fault"] != "connect-timeout"))


class BodyError(Exception):
    """Raised by the harness body."""


def _library_errors() -> list[type]:
    from aiomysensors.exceptions import AIOMySensorsError

    out, todo = [], [AIOMySensorsError]
    while todo:
        cls = todo.pop()
        if cls not in out:
            out.append(cls)
            todo.extend(cls.__subclasses__())
    return sorted(out, key=lambda c: c.__name__)


BODY_EXCS = ("BodyError", "OSError", "ConnectionResetError", "RuntimeError", "KeyError", "TimeoutError", "KeyboardInterrupt", "SystemExit") + tuple(
    c.__name__ for c in _library_errors()
)


def _make_exc(name: str) -> BaseException:
    import builtins

    cls = BodyError if name == "BodyError" else getattr(builtins, name, None)
    if cls is None:
        cls = next((c for c in _library_errors() if c.__name__ == name), BodyError)
    for args in (("body failed",), ("body failed", "second"), (), (OSError("inner"), b"partial"), ("a", "b", "c")):
        try:
            return cls(*args)
        except TypeError:
            continue
    return BodyError("body failed")


class _Ctx:
    """`async with gateway`, with the entry and/or the exit run by a short-lived task of their own (a set-up task, an AsyncExitStack
    unwound by a shutdown task): which task enters and which one leaves is the application's business."""

    def __init__(self, gateway, enter_task: bool, exit_task: bool) -> None:
        self.gateway, self.enter_task, self.exit_task = gateway, enter_task, exit_task

    async def __aenter__(self):
        if self.enter_task:
            return await asyncio.ensure_future(self.gateway.__aenter__())
        return await self.gateway.__aenter__()

    async def __aexit__(self, *exc):
        if self.exit_task:
            return await asyncio.ensure_future(self.gateway.__aexit__(*exc))
        return await self.gateway.__aexit__(*exc)


class PlainTransport(env.RecordingTransport):
    """Fake transport; `suspends=False` gives connect/disconnect that never yield to the event loop
    (then the saver task has not even started when a short body leaves the context)."""

    def __init__(self, fault: str, suspends: bool = True) -> None:
        super().__init__()
        self.fault = fault
        self.suspends = suspends
        self.hanging = asyncio.Event()
        self.block_reads = False
        self.traffic_period = 0
        self.traffic_count = 0
        self.slow_disconnect = 0.0

    async def read(self) -> str:
        if self.traffic_period:
            # a busy network: something arrives every so often (gateway log lines, reports of nodes nobody registered: nothing the registry keeps)
            await asyncio.sleep(self.traffic_period)
            self.traffic_count += 1
            return ("0;255;3;0;9;gateway log line\n", "0;255;3;0;22;12345\n", "0;255;3;0;2;2.2.0\n")[self.traffic_count % 3]
        if self.block_reads:
            await asyncio.Event().wait()  # a quiet network: the listening task waits here
        return await super().read()

    async def connect(self) -> None:
        self.connected += 1
        if self.suspends:
            await asyncio.sleep(0)
        if self.fault == "connect" or (self.fault == "connect-once" and self.connected == 1):
            raise TransportError("injected connect fault")
        if self.fault == "connect-timeout":
            await asyncio.Event().wait()  # hangs until the caller gives up

    async def disconnect(self) -> None:
        self.disconnected += 1
        if self.suspends:
            await asyncio.sleep(0)
        if self.slow_disconnect:
            await asyncio.sleep(self.slow_disconnect)  # a link that takes its time to close
        if self.fault == "disconnect-hang":
            self.hanging.set()
            await asyncio.Event().wait()  # the link is stuck: only a cancellation of the leaving task ends this
        if "disconnect" in self.fault:
            raise TransportFailedError("injected disconnect fault")


class StreamKind(c03.MemoryStreamTransport):
    def __init__(self, fault: str) -> None:
        super().__init__(b"0;255;3;0;9;hello\n", 65536)
        self.fault = fault
        self.connected = 0
        self.disconnected = 0

    async def _open_connection(self):
        self.connected += 1
        if self.fault == "connect" or (self.fault == "connect-once" and self.connected == 1):
            raise ConnectionRefusedError("injected connect fault")
        pair = await super()._open_connection()  # a fresh connection per session
        self._mems = getattr(self, "_mems", []) + [self.mem]
        return pair

    @property
    def disconnected(self) -> int:
        return sum(1 for mem in getattr(self, "_mems", []) if mem.closed_count > 0)

    @disconnected.setter
    def disconnected(self, value: int) -> None:
        pass


def _make_transport(kind: str, fault: str):
    if kind == "plain":
        return PlainTransport(fault)
    if kind == "plain-nosuspend":
        return PlainTransport(fault, suspends=False)
    if kind == "stream":
        return StreamKind(fault)
    from vf.props import c18

    return c18.make_mqtt_for_lifecycle(fault)


def _run_threads(case: dict) -> Outcome:
    """Real worker threads (no inline executor): the registry keeps changing on the loop thread while saves are under way. Reading a
    node attribute takes a moment when done from a worker thread, so whatever the library does off the loop thread overlaps with
    the changes. Oracle: the context is left without an error and the file equals the registry at exit."""
    import threading
    import time as _time

    scratch = tempfile.mkdtemp(prefix="vf-c16-", dir=c13.SCRATCH_BASE)
    path = os.path.join(scratch, "persistence.json")
    classes = ("threads", f"changes={case['changes']}")
    main_thread = threading.current_thread()

    class SlowOffLoopNode(Node):
        @property
        def sketch_name(self):  # type: ignore[override]
            if threading.current_thread() is not main_thread:
                _time.sleep(0.02)
            return self.__dict__.get("_sketch_name", "")

        @sketch_name.setter
        def sketch_name(self, value) -> None:
            self.__dict__["_sketch_name"] = value

    async def go() -> Outcome | None:
        gateway = Gateway(PlainTransport("none"), Config(persistence_file=path))
        for i in range(1, 6):
            gateway.nodes[i] = SlowOffLoopNode(i, 17, "2.0")
        try:
            async with gateway:
                for step in range(case["changes"]):
                    gateway.nodes[50 + step] = SlowOffLoopNode(50 + step, 17, "2.0")  # a node presents itself
                    await asyncio.sleep(0.005)
                final = json.loads(json.dumps(env.snapshot(gateway.nodes)))
        except BaseException as err:  # noqa: BLE001
            return fail(f"threads:exit-raised-{type(err).__name__}", f"nodes kept presenting themselves while saves ran; leaving the context raised {err!r}", classes=classes)
        with open(path, encoding="utf-8") as fil:
            doc = json.loads(fil.read() or "{}")
        if doc != final:
            return fail("threads:final-save-missing", f"after exit the file holds nodes {sorted(doc)}; the registry held {sorted(final)}", classes=classes)
        return None

    try:
        bad = env.run(go())
    finally:
        shutil.rmtree(scratch, ignore_errors=True)
    if bad is not None:
        return bad
    return Outcome(ok=True, nontrivial=True, classes=classes)


def run_case(case: dict) -> Outcome:
    if case.get("kind") == "threads":
        return _run_threads(case)
    kind, fault, initial, k, T = case["kind"], case["fault"], case["file"], case["k"], case["T"]
    scratch = tempfile.mkdtemp(prefix="vf-c16-", dir=c13.SCRATCH_BASE)
    path = os.path.join(scratch, case.get("file_name") or "persistence.json")
    if initial == "empty":
        open(path, "w").close()
    elif initial == "registry":
        with open(path, "w", encoding="utf-8") as fil:
            json.dump(FILE_REGISTRY, fil)
    elif initial == "big":
        with open(path, "w", encoding="utf-8") as fil:
            json.dump(BIG_REGISTRY, fil)
    info = {"saver_busy_at_exit": False, "boundary": False}

    def disk() -> tuple[str, object]:
        if not os.path.exists(path):
            return "missing", None
        try:
            with open(path, encoding="utf-8") as fil:
                text = fil.read()
            doc = json.loads(text or "{}")
        except (OSError, ValueError) as err:
            return "unreadable", repr(err)
        return "ok", doc

    async def disk_when_quiet(gateway: Gateway) -> tuple[str, object]:
        """The file, read again over a few loop iterations (no virtual time passes) if a scheduled save is rewriting it at this very moment."""
        state, doc = disk()
        for _ in range(40):
            if state == "ok" and doc == registry_doc(gateway):
                break
            await asyncio.sleep(0)
            state, doc = disk()
        return state, doc

    def registry_doc(gateway: Gateway) -> dict:
        return json.loads(json.dumps(env.snapshot(gateway.nodes)))

    ignore_tasks: set = set()
    shared: dict = {}

    async def other_loop_session() -> Outcome | None:
        """The same Gateway object used again under a NEW event loop (a second asyncio.run in the same process)."""
        gateway, transport = shared["gateway"], shared["transport"]
        where = f"kind={kind} file={initial} k={k} T={T}, second session under a new event loop"
        me = asyncio.current_task()
        before = getattr(transport, "disconnected", 0)
        try:
            async with gateway:
                await asyncio.sleep(1)
                state, doc = disk()
                if state != "ok" or doc != registry_doc(gateway):
                    return fail("new-loop:no-save-after-entering", f"{where}: one virtual second after entry the file is {state} {str(doc)[:120]!r}")
                gateway.nodes[12] = Node(12, 17, "2.2")
                await asyncio.sleep(901.5)
                state, doc = await disk_when_quiet(gateway)
                if state != "ok" or doc != registry_doc(gateway):
                    return fail("new-loop:periodic-save-missing", f"{where}: 15 minutes after a change the file is {state} {str(doc)[:160]!r}")
                gateway.nodes[13] = Node(13, 17, "2.2")
                for _ in range(k):
                    await asyncio.sleep(0)
                final_doc = registry_doc(gateway)
        except BaseException as err:  # noqa: BLE001
            return fail(f"new-loop:raised-{type(err).__name__}", f"{where}: {err!r}")
        for _ in range(3):
            await asyncio.sleep(0)
        left = [t for t in asyncio.all_tasks() if t is not me and not t.done()]
        if left:
            return fail("new-loop:task-left", f"{where}: tasks left: {left!r}")
        if getattr(transport, "disconnected", before + 1) != before + 1:
            return fail("new-loop:disconnect-count", f"{where}: disconnect ran {transport.disconnected - before} times in this session")
        state, doc = disk()
        if state != "ok" or doc != final_doc:
            return fail("new-loop:final-save-missing", f"{where}: after exit the file is {state} {str(doc)[:160]!r}")
        return None

    async def main() -> Outcome | None:
        if not case.get("bystander"):
            return await main_a()
        # another gateway with its own file lives in the same event loop (say serial + MQTT in one controller)
        path_b = os.path.join(scratch, "bystander.json")
        other = Gateway(PlainTransport("none"), Config(persistence_file=path_b))
        other.nodes[70] = Node(70, 17, "2.0")
        await other.__aenter__()
        await asyncio.sleep(1)
        ignore_tasks.update(t for t in asyncio.all_tasks() if t is not asyncio.current_task())
        try:
            bad = await main_a()
            if bad is not None:
                return bad
            other.nodes[77] = Node(77, 17, "2.1")
            await asyncio.sleep(901.5)
            try:
                with open(path_b, encoding="utf-8") as fil:
                    doc = json.loads(fil.read() or "{}")
            except (OSError, ValueError) as err:
                doc = repr(err)
            if doc != registry_doc(other):
                return fail(f"bystander:periodic-save-stopped:{fault}", f"kind={kind} fault={fault}: another gateway in the same loop changed its registry; 901 s later its file holds {str(doc)[:160]!r}")
        finally:
            await other.__aexit__(None, None, None)
        for _ in range(3):
            await asyncio.sleep(0)
        left = [t for t in asyncio.all_tasks() if t is not asyncio.current_task() and not t.done()]
        if left:
            return fail("bystander:task-left", f"tasks left after both gateways left their contexts: {left!r}")
        return None

    async def main_a(fault: str = fault) -> Outcome | None:
        loop = asyncio.get_running_loop()
        transport = _make_transport(kind, fault)
        gateway = Gateway(transport, Config(persistence_file=path))
        shared["gateway"], shared["transport"] = gateway, transport
        if fault == "disconnect-hang":
            # leaving the context (however the body ends) will hang in disconnect; the application gives up 5 s later and cancels the task
            leaving = asyncio.current_task()

            async def give_up() -> None:
                await transport.hanging.wait()
                await asyncio.sleep(5)
                leaving.cancel()

            ignore_tasks.add(asyncio.ensure_future(give_up()))
        if fault == "connect-once":
            # the first attempt to enter the context fails in connect; the application retries on the same gateway object and
            # from then on everything is demanded as in a fault-free session
            try:
                async with gateway:
                    return fail("connect-once:no-error", "the first connect failed but the context was entered")
            except TransportError:
                pass
            except BaseException as err:  # noqa: BLE001
                return fail(f"connect-fail:raised-{type(err).__name__}", f"kind={kind}: failing connect surfaced as {err!r}")
            for _ in range(3):
                await asyncio.sleep(0)
            left = [t for t in asyncio.all_tasks() if t is not asyncio.current_task() and not t.done() and t not in ignore_tasks]
            if left:
                return fail("connect-fail:task-left", f"kind={kind}: tasks left behind after the failed connect: {left!r}")
            fault = "none"
        if case.get("prefill"):
            gateway.nodes[21] = Node(21, 17, "2.0")  # known to the application before the context is entered
        me = asyncio.current_task()
        caught: BaseException | None = None
        entered = False
        at_exit_doc = None
        try:
            if fault == "connect-timeout":
                # the application abandons a hanging connect: cancellation is delivered inside __aenter__
                async with asyncio.timeout(30):
                    await gateway.__aenter__()
                return fail("connect-timeout:no-error", "a hanging connect returned")
            async with _Ctx(gateway, bool(case.get("enter_task")), bool(case.get("exit_task"))):
                entered = True
                if case.get("reader_task") and kind.startswith("plain"):
                    # the usual application shape: one task iterates gateway.listen() (waiting for traffic) while this one leaves the context
                    transport.block_reads = True
                    transport.traffic_period = case.get("traffic") or 0

                    async def consume() -> None:
                        while True:
                            try:
                                async for _message in gateway.listen():
                                    pass
                            except AIOMySensorsError:
                                continue  # (a message the protocol version in use rejects: the application logs it and listens on)

                    consumer = asyncio.ensure_future(consume())
                    ignore_tasks.add(consumer)
                    shared["consumer"] = consumer
                    await asyncio.sleep(0)
                loaded_now = env.snapshot(gateway.nodes)
                if initial == "big" and {k: v for k, v in loaded_now.items() if k in BIG_REGISTRY} != BIG_REGISTRY:
                    return fail("entry:file-not-loaded", f"registry after entry has {len(loaded_now)} nodes; the file holds 60")
                if initial == "registry" and {k: v for k, v in loaded_now.items() if k in FILE_REGISTRY} != FILE_REGISTRY:
                    return fail("entry:file-not-loaded", f"registry after entry is {loaded_now!r}; the file holds node 3")
                if case.get("prefill") and "21" not in loaded_now:
                    return fail("entry:registry-replaced", f"node 21, registered before entering, is gone after entry: {sorted(loaded_now)}")
                if T is not None:
                    await asyncio.sleep(1)
                    state, doc = disk()
                    if state != "ok" or doc != registry_doc(gateway):
                        return fail("entry:no-save-after-entering", f"one virtual second after entry the file is {state} {str(doc)[:120]!r}, registry {registry_doc(gateway)!r}")
                if case["mutate"] == "clear":
                    gateway.nodes.clear()  # the application decommissions every node: an empty registry is a registry like any other
                elif case["mutate"]:
                    if case["mutate"] == "in-place" and gateway.nodes:
                        # change known nodes in place, the way the message handlers do
                        for node in gateway.nodes.values():
                            node.battery_level = 42
                            node.sketch_name = "changed in place"
                            node.add_child(7, 6, "added in place")
                            node.children[7].values[0] = "21.5"
                    else:
                        gateway.nodes[9] = Node(9, 17, "2.0")
                        gateway.nodes[9].add_child(1, 6, "added in body")
                changed_at = loop.time()
                if T is not None:
                    await asyncio.sleep(T)
                    if loop.time() - changed_at >= 901 - 1e-9:
                        info["boundary"] = True
                        state, doc = await disk_when_quiet(gateway)
                        if state != "ok" or doc != registry_doc(gateway):
                            return fail("periodic:change-not-on-disk-after-15-min", f"{loop.time() - changed_at:.0f} s after the change the file is {state} {str(doc)[:160]!r}")
                for step in range(k):
                    if case["mutate"] == "churn":
                        # the network keeps changing while the saver works: a node appears or disappears at every loop step
                        if step % 3 == 2 and (200 + step - 2) in gateway.nodes:
                            del gateway.nodes[200 + step - 2]
                        else:
                            gateway.nodes[200 + step] = Node(200 + step, 17, "2.0")
                    await asyncio.sleep(0)
                state, doc = disk()
                info["saver_busy_at_exit"] = not (state == "ok" and doc == registry_doc(gateway)) and case["mutate"] is False or (state != "ok")
                if T is None and case["mutate"]:
                    # the first save may or may not have run yet: busy unless the file already holds a complete document
                    info["saver_busy_at_exit"] = state != "ok" or k < 8
                at_exit_doc = registry_doc(gateway)
                if case.get("late_change") and kind.startswith("plain"):
                    # the link takes 10 s to close; 5 s into that a message handled by another task (or the application) still changes the registry
                    transport.slow_disconnect = 10.0

                    async def change_later() -> None:
                        await asyncio.sleep(5)
                        gateway.nodes[33] = Node(33, 17, "2.2")
                        for node in gateway.nodes.values():
                            node.battery_level = 77

                    ignore_tasks.add(asyncio.ensure_future(change_later()))
                    shared["late"] = True
                if fault == "cancel-body":
                    # the application task is cancelled for real (task.cancel(), asyncio.timeout, Ctrl-C under asyncio.run)
                    me.cancel()
                    await asyncio.sleep(3600)
                if fault.startswith("body"):
                    raise _make_exc(case.get("body_exc", "BodyError"))
        except BaseException as err:  # noqa: BLE001
            caught = err
        if shared.get("late"):
            at_exit_doc = registry_doc(gateway)  # the registry as it is when the context has been left
        if fault in ("cancel-body", "disconnect-hang") and isinstance(caught, asyncio.CancelledError):
            me.uncancel()
        if shared.get("consumer") is not None:
            shared["consumer"].cancel()  # (the application stops its own listener after leaving)
            try:
                await shared["consumer"]
            except BaseException:  # noqa: BLE001
                pass
        if at_exit_doc is None:
            at_exit_doc = registry_doc(gateway)
        for _ in range(3):
            await asyncio.sleep(0)
        leftover = [t for t in asyncio.all_tasks() if t is not me and not t.done() and t not in ignore_tasks]
        phase = "never-entered" if not entered else ("after-timer" if T is not None else ("early-exit" if k < 8 else "late-exit"))
        where = f"kind={kind} fault={fault} file={initial} k={k} T={T}"

        if fault == "connect-timeout":
            if not isinstance(caught, (TimeoutError, asyncio.CancelledError)):
                return fail(f"connect-timeout:raised-{type(caught).__name__}", f"{where}: an abandoned connect surfaced as {caught!r}")
            if leftover:
                return fail("connect-timeout:task-left", f"{where}: connecting was abandoned (timeout) and tasks are left behind: {leftover!r}")
            return None
        if fault == "connect":
            if not isinstance(caught, TransportError):
                return fail(f"connect-fail:raised-{type(caught).__name__}", f"{where}: failing connect surfaced as {caught!r}")
            if leftover:
                return fail("connect-fail:task-left", f"{where}: tasks left behind: {leftover!r}")
            return None
        # -- exception leaving the context
        if fault in ("cancel-body", "disconnect-hang"):
            if not isinstance(caught, asyncio.CancelledError):
                return fail(f"exit:{phase}:cancellation-became-{type(caught).__name__}", f"{where}: the body was cancelled but {caught!r} left the context")
        elif isinstance(caught, asyncio.CancelledError):
            return fail(f"exit:{phase}:CancelledError", f"{where}: CancelledError left 'async with' (the saver's cancellation leaked)")
        if fault == "none" and caught is not None:
            return fail(f"exit:{phase}:raised-{type(caught).__name__}", f"{where}: clean exit raised {caught!r}")
        body_cls = type(_make_exc(case.get("body_exc", "BodyError")))
        if fault == "body" and type(caught) is not body_cls:
            return fail(f"exit:{phase}:body-error-replaced-by-{type(caught).__name__}", f"{where}: the body raised {body_cls.__name__} but {caught!r} left the context")
        if fault == "disconnect" and not isinstance(caught, TransportError):
            return fail(f"exit:{phase}:disconnect-error-became-{type(caught).__name__}", f"{where}: disconnect raised TransportFailedError but {caught!r} left the context")
        if fault == "disconnect-oserror" and (caught is None or isinstance(caught, asyncio.CancelledError)):
            return fail(f"exit:{phase}:disconnect-error-swallowed", f"{where}: the broker goodbye raised OSError but {caught!r} left the context")
        if fault == "disconnect-mqtterror" and caught is not None:
            return fail(f"exit:{phase}:raised-{type(caught).__name__}", f"{where}: {caught!r} left the context")
        if fault == "body+disconnect" and not isinstance(caught, (body_cls, TransportError)):
            return fail(f"exit:{phase}:raised-{type(caught).__name__}", f"{where}: {caught!r} left the context")
        if isinstance(caught, Deadlock):
            return fail("exit:deadlock", f"{where}: the event loop has nothing left to run")
        # -- effects of leaving
        if getattr(transport, "disconnected", 1) != 1:
            return fail(f"exit:{phase}:disconnect-count-{transport.disconnected}", f"{where}: disconnect ran {transport.disconnected} times")
        if leftover:
            return fail(f"exit:{phase}:task-left:{fault}", f"{where}: tasks left running: {leftover!r}")
        state, doc = disk()
        if state != "ok" or doc != at_exit_doc:
            return fail(f"exit:{phase}:final-save-missing:{fault}", f"{where}: after exit the file is {state} {str(doc)[:160]!r}; registry at exit {str(at_exit_doc)[:160]!r}")
        if case.get("reenter") and fault == "none":
            # the same gateway object is used for a second session (reconnect after the link dropped)
            caught2: BaseException | None = None
            on_disk = None
            if case.get("between_edit") and gateway.nodes:
                # while disconnected the application drops a node from its registry and edits another (the file is not touched):
                # entering again loads the file, so what the file holds is back
                _state, on_disk = disk()
                ids = sorted(gateway.nodes)
                del gateway.nodes[ids[0]]
                if len(ids) > 1:
                    gateway.nodes[ids[-1]].battery_level = 99
                    gateway.nodes[ids[-1]].sketch_name = "edited while disconnected"
            try:
                async with gateway:
                    if on_disk is not None:
                        now = registry_doc(gateway)
                        if {k: v for k, v in now.items() if k in on_disk} != on_disk:
                            return fail("reenter:file-not-loaded", f"{where}: the registry was changed while disconnected; after entering again it holds {str(now)[:200]!r}, the file holds {str(on_disk)[:200]!r}")
                    if T is not None:
                        await asyncio.sleep(1)
                        state, doc = disk()
                        if state != "ok" or doc != registry_doc(gateway):
                            return fail("reenter:no-save-after-entering", f"{where}: one virtual second into the second session the file is {state} {str(doc)[:120]!r}")
                    gateway.nodes[11] = Node(11, 17, "2.1")
                    for node in gateway.nodes.values():
                        node.battery_level = 13
                    if T is not None:
                        await asyncio.sleep(max(T, 901))
                        state, doc = await disk_when_quiet(gateway)
                        if state != "ok" or doc != registry_doc(gateway):
                            return fail("reenter:periodic-save-missing", f"{where}: 15 minutes into the second session the change is not on disk: {state} {str(doc)[:160]!r}")
                    for _ in range(k):
                        await asyncio.sleep(0)
                    second_doc = registry_doc(gateway)
            except BaseException as err:  # noqa: BLE001
                caught2 = err
            for _ in range(3):
                await asyncio.sleep(0)
            if caught2 is not None:
                return fail(f"reenter:raised-{type(caught2).__name__}", f"{where}: entering the context a second time: {caught2!r}")
            leftover = [t for t in asyncio.all_tasks() if t is not me and not t.done() and t not in ignore_tasks]
            if leftover:
                return fail("reenter:task-left", f"{where}: second session left tasks: {leftover!r}")
            if getattr(transport, "disconnected", 2) != 2:
                return fail(f"reenter:disconnect-count-{transport.disconnected}", f"{where}: disconnect ran {transport.disconnected} times over two sessions")
            state, doc = disk()
            if state != "ok" or doc != second_doc:
                return fail("reenter:final-save-missing", f"{where}: after the second session the file is {state} {str(doc)[:160]!r}")
        return None

    try:
        try:
          with env.eager_tasks(bool(case.get("eager_tasks"))):
            bad, _loop = run_virtual(main)
            if bad is None and case.get("new_loop") and fault in ("none", "body", "cancel-body") and "gateway" in shared:
                bad, _loop = run_virtual(other_loop_session)
        except Deadlock:
            bad = fail("deadlock", f"{case}: the event loop has nothing left to run")
    finally:
        shutil.rmtree(scratch, ignore_errors=True)
    classes = (f"kind={kind}", f"fault={fault}", f"file={initial}", "timed" if T is not None else f"k={min(k, 13)}")
    if bad is not None:
        bad.classes = classes
        return bad
    nontrivial = fault != "none" or info["boundary"] or (T is None and k < 8)
    return Outcome(ok=True, nontrivial=nontrivial, classes=classes)
