"""C15 - a crash during save never destroys the previously saved registry (DESIGN 4.15)."""

from __future__ import annotations

import io
import json
import os
import shutil
import tempfile

from hypothesis import strategies as st

from aiomysensors.gateway import Config, Gateway

from vf import env
from vf.props import c13
from vf.runner import Outcome, fail, load_known

ID = "C15"
LEVEL = "fault_enumeration"
DESIGN_REF = "4.15"
RULE = (
    "a case is a pair (old registry saved normally first, or no file; new registry being saved), incl. old == new, old empty and registries "
    "larger than one I/O buffer. A dry run of Persistence.save in a forked child records the sequence of file-system operations it performs "
    "on the scratch directory (raw open/truncate, each raw write, close, replace/rename/unlink/link/fsync if any). Then for EVERY operation k "
    "a fresh child is forked, performs the save on the real directory and dies with os._exit just before operation k; for raw writes it also "
    "dies after pushing 1, half and all-but-one of the bytes. The parent loads the file the crash left behind into an empty registry. "
    "Oracle: the result is the old registry or the new registry (deep equality) - never a read error, never anything else; a completed "
    "save loads as the new registry. For a third of the pairs every state a first crash left behind is the start of a SECOND save that is killed at every operation again (crash, restart, load, save, crash). evaluations counts forked crash runs. Non-trivial = a crash strictly inside a save with old != new "
    "and old not empty; distinct = distinct (old, new) pair."
    ' Round 6: the save is reached through save(), load()+save(), start()..stop() or the gateway context; the old file may be in the legacy layout (with or without nulls); an enumerated grid of entry point x layout x grow/shrink/same/none.'
    ' Round 7: `link` - the live path is a symbolic link to the real file.'
    ' Round 9: `old_age` (mtime of the old file); every crash point also as a soft death (KeyboardInterrupt at that operation).'
    " Round 10: `path_form` (bare, ./name, ../dir/name relative to the working directory); the sweep starts from everything the library's own save left in the directory."
    ' Round 11: `file_name`; opens through a custom opener are intercepted; the second sweep also saves what was loaded and a one-node registry.'
    " Round 12: `hardlink`; directory states record hard links and modes; a file without the owner's read bit after a crash is unreadable."
    ' Round 13: `prior_saves`, `debug_log` in the forked child.'
)
ASSUMPTIONS = [
    "process death with a surviving operating system: bytes handed to write(2) persist, no power-loss reordering",
    "file operations are intercepted at the Python level (builtins.open / aiofiles.threadpool.sync_open raw FileIO, os.replace & co.) in the child",
]
DELETABLE = ()


def budgets(tier: str) -> dict:
    if tier == "quick":
        return {"examples": 60, "shards": 4}
    return {"examples": 1500, "shards": 16}


def strategy(tier: str):
    reg = c13._direct_registry()
    big = st.builds(
        lambda n: {str(i): {"node_id": i, "node_type": 17, "protocol_version": "2.2.0", "sketch_name": "node %d" % i, "sketch_version": "1.0",
                            "battery_level": i % 101, "heartbeat": i, "sleeping": bool(i % 2),
                            "children": {str(c): {"child_id": c, "child_type": 6, "description": "child %d of %d" % (c, i), "values": {"0": "20.5", "1": "x" * 20}} for c in range(4)}}
                   for i in range(1, n + 1)},
        st.integers(8, 40),
    )
    registry = st.one_of(reg, reg, reg, big)
    return st.fixed_dictionaries(
        {
            "old": st.one_of(st.none(), registry, registry, registry),
            "new": registry,
            "same": st.sampled_from((False, False, False, False, True)),
            "second": st.sampled_from((False, False, True)),
            "how": st.sampled_from(("save", "save", "load-save", "stop", "context")),
            "old_layout": st.sampled_from(("native", "native", "legacy", "legacy-nulls")),
            "link": st.sampled_from((False, False, True)),
            "old_age": st.sampled_from((0, 0, 899, 901, 3600, 86400 * 400)),
            "path_form": st.sampled_from(("absolute", "absolute", "bare", "dot", "subdir")),
            "file_name": st.sampled_from(FILE_NAMES),
            "hardlink": st.sampled_from((False, False, True)),
            "prior_saves": st.sampled_from((0, 0, 0, 1, 3, 5)),
            "debug_log": st.sampled_from((False, False, True)),
        }
    )


# how the application names its registry file: nothing in the property depends on an extension
FILE_NAMES = ("persistence.json", "persistence.json", "mysensors.db", "nodes", "registry.JSON", "nodes.json.bak", ".mysensors", "my.sensors.pickle", "a.tmp", "nodes.json.json")


def _node(i: int, name: str, children: bool = True) -> dict:
    return {"node_id": i, "node_type": 17, "protocol_version": "2.2.0", "sketch_name": name, "sketch_version": "1.0", "battery_level": i, "heartbeat": 0, "sleeping": False,
            "children": {"1": {"child_id": 1, "child_type": 6, "description": "t", "values": {"0": "20.5"}}} if children else {}}


def enumerate_cases(tier: str):
    """Every way of reaching a save x every layout of the old file x grow / shrink / same / no old file."""
    a = {"1": _node(1, "one"), "2": _node(2, "two"), "3": _node(3, "three", False)}
    grow = dict(a, **{"4": _node(4, "four")})
    shrink = {"1": _node(1, "one changed"), "3": _node(3, "three", False)}
    for how in HOWS:
        for layout in ("native", "legacy", "legacy-nulls"):
            for old, new in ((a, grow), (a, shrink), (a, a), (None, a), ({}, a)):
                if old is None and layout != "native":
                    continue
                yield {"old": old, "new": new, "same": False, "second": how == "save" and layout == "native", "how": how, "old_layout": layout}
                if old is not None and layout == "native":
                    yield {"old": old, "new": new, "same": False, "second": False, "how": how, "old_layout": layout, "link": True}
                    for age in (901, 86400 * 400):
                        yield {"old": old, "new": new, "same": False, "second": False, "how": how, "old_layout": layout, "old_age": age}
                    for form in ("bare", "dot", "subdir"):
                        yield {"old": old, "new": new, "same": False, "second": False, "how": how, "old_layout": layout, "path_form": form}
                    yield {"old": old, "new": new, "same": False, "second": how == "save", "how": how, "old_layout": layout, "hardlink": True}
                    yield {"old": old, "new": new, "same": False, "second": False, "how": how, "old_layout": layout, "debug_log": True}
                    if how == "save":
                        for n in (1, 3, 4, 9):
                            yield {"old": old, "new": new, "same": False, "second": False, "how": how, "old_layout": layout, "prior_saves": n}
                    if how in ("save", "context"):
                        for name in FILE_NAMES[2:]:
                            yield {"old": old, "new": new, "same": False, "second": how == "save", "how": how, "old_layout": layout, "file_name": name}


# ---------------------------------------------------------------------------
# child side


class _Control:
    def __init__(self, scratch: str, crash_at: int, partial: int | None, log_fd: int | None) -> None:
        self.scratch = scratch
        self.crash_at = crash_at
        self.partial = partial
        self.log_fd = log_fd
        self.count = 0

    def tick(self, kind: str, **detail) -> int | None:
        idx = self.count
        self.count += 1
        if self.log_fd is not None:
            os.write(self.log_fd, (json.dumps({"kind": kind, **detail}) + "\n").encode())
        if idx == self.crash_at:
            if kind == "write" and self.partial is not None:
                return self.partial
            if SOFT[0]:
                # the process dies "politely": Ctrl-C / SIGTERM handler / sys.exit arrive as an exception at this operation and
                # Python unwinds (finally blocks and exception handlers of the code under test run) before the process is gone
                SOFT[0] = False
                raise KeyboardInterrupt
            os._exit(0)
        return None


def _install(ctl: _Control) -> None:
    import builtins

    import aiofiles.threadpool

    real_open = builtins.open

    class CrashFileIO(io.FileIO):
        def __init__(self, name, mode, opener=None) -> None:
            full = os.path.abspath(str(name))
            ctl.tick("open", mode=mode, path=os.path.basename(full) if full.startswith(ctl.scratch) else full)
            super().__init__(name, mode, opener=opener)

        def write(self, data) -> int:
            part = ctl.tick("write", size=len(data))
            if part is not None:
                os.write(self.fileno(), bytes(data)[:part])
                os._exit(0)
            return super().write(data)

        def truncate(self, size=None):
            ctl.tick("truncate")
            return super().truncate(size)

        def close(self) -> None:
            if not self.closed:
                ctl.tick("close")
            super().close()

    def crash_open(file, mode="r", buffering=-1, encoding=None, errors=None, newline=None, closefd=True, opener=None):
        is_path = isinstance(file, (str, os.PathLike))
        full = os.path.abspath(os.fspath(file)) if is_path else ""
        if not is_path or not any(ch in mode for ch in "wax+") or full in ("/dev/null", "/dev/zero", "/dev/tty") or full.startswith(("/proc/", "/sys/", "/dev/pts", "/dev/fd")):
            return real_open(file, mode, buffering, encoding, errors, newline, closefd, opener)
        raw_mode = mode.replace("b", "").replace("t", "")
        raw = CrashFileIO(file, raw_mode, opener)  # (a custom opener decides the flags and permissions; the operations on the file are the same)
        buffered = io.BufferedWriter(raw) if "+" not in raw_mode else io.BufferedRandom(raw)
        if "b" in mode:
            return buffered
        return io.TextIOWrapper(buffered, encoding=encoding or "utf-8", errors=errors, newline=newline)

    builtins.open = crash_open
    io.open = crash_open
    aiofiles.threadpool.sync_open = crash_open

    def wrap_os(name: str) -> None:
        real = getattr(os, name, None)
        if real is None:
            return

        def shim(*args, **kwargs):
            ctl.tick(name, args=[os.path.basename(str(a)) for a in args if isinstance(a, (str, os.PathLike))])
            return real(*args, **kwargs)

        setattr(os, name, shim)
        try:
            import aiofiles.os as aos
            import aiofiles.ospath  # noqa: F401

            if hasattr(aos, name):
                setattr(aos, name, aos.wrap(shim))
        except Exception:  # noqa: BLE001
            pass

    for name in ("replace", "rename", "unlink", "remove", "link", "symlink", "fsync", "fdatasync", "truncate", "ftruncate", "sendfile", "copy_file_range", "splice", "rmdir", "mkdir"):
        wrap_os(name)


AGE = [0]  # seconds since the old file was written (set by run_case; applied whenever a directory state is restored)
SOFT = [False]  # die by an exception raised at the crash point instead of a hard kill (set by the sweep; read in the child)
HOWS = ("save", "load-save", "stop", "context")
PATH_FORM = ["absolute"]  # how the application spells the configured path (set by run_case; read in the forked child)


def _cfg_path(path: str) -> str:
    """The configured spelling of the persistence path; the process's working directory is the scratch directory for the relative forms."""
    form = PATH_FORM[0]
    if form == "bare":
        return os.path.basename(path)
    if form == "dot":
        return "./" + os.path.basename(path)
    if form == "subdir":
        return os.path.join("..", os.path.basename(os.path.dirname(path)), os.path.basename(path))
    return path


PRIOR_SAVES = [0]  # completed saves the process performs before the one that is interrupted (set by run_case; read in the child)
DEBUG_LOG = [False]  # the process logs at DEBUG, as under the bundled CLI (set by run_case; read in the child)
HOW = ["save"]  # how the process under test reaches its save (set by run_case around the sweeps; read in the forked child)


async def _first_save_done(path: str) -> None:
    """Wait (bounded) until the scheduled saver has written a complete document: the order of file operations is then fixed."""
    import asyncio

    for _ in range(2000):
        await asyncio.sleep(0.001)
        try:
            with io.open(path, "rb") as fil:  # (read-only opens are not intercepted)
                data = fil.read()
            if data and json.loads(data.decode("utf-8")) is not None:
                # one more turn so that the saver is back in its sleep
                await asyncio.sleep(0.005)
                return
        except (OSError, ValueError):
            continue


async def _flow(gateway: Gateway, new: dict, how: str) -> None:
    """What the process does before it dies: the public ways in which a registry gets saved."""
    import asyncio

    if how == "context":
        # the README's way: enter the context (load, scheduled saver), the registry changes, leave (final save)
        async with gateway:
            env.install_registry(gateway.nodes, new)  # (before the first await: every save of this run writes the same registry)
            await _first_save_done(gateway.persistence.path)
        return
    if how == "load-save":
        await gateway.persistence.load()
    env.install_registry(gateway.nodes, new)
    if how == "save":
        for _ in range(PRIOR_SAVES[0]):
            await gateway.persistence.save()  # (a long-running process: this is not its first save)
    if how == "stop":
        await gateway.persistence.start()
        await _first_save_done(gateway.persistence.path)
        await gateway.persistence.stop()
        return
    await gateway.persistence.save()


def _child(scratch: str, path: str, new: dict, crash_at: int, partial: int | None, log_fd: int | None) -> None:
    try:
        ctl = _Control(scratch, crash_at, partial, log_fd)
        _install(ctl)
        if PATH_FORM[0] != "absolute":
            os.chdir(scratch)
        if DEBUG_LOG[0]:
            env.debug_logging(True).__enter__()
        gateway = Gateway(env.RecordingTransport(), Config(persistence_file=_cfg_path(path)))
        import asyncio

        soft = SOFT[0]
        try:
            asyncio.run(_flow(gateway, new, HOW[0]))
        except KeyboardInterrupt:
            if soft:
                os._exit(0)  # died of the injected interrupt, after unwinding
            raise
    except BaseException:  # noqa: BLE001
        os._exit(3)
    os._exit(0)


def _fork(scratch: str, path: str, new: dict, crash_at: int, partial: int | None, want_log: bool) -> tuple[int, list]:
    rfd, wfd = os.pipe() if want_log else (None, None)
    pid = os.fork()
    if pid == 0:
        if rfd is not None:
            os.close(rfd)
        _child(scratch, path, new, crash_at, partial, wfd)
    if wfd is not None:
        os.close(wfd)
    ops: list = []
    if rfd is not None:
        chunks = []
        while True:
            chunk = os.read(rfd, 65536)
            if not chunk:
                break
            chunks.append(chunk)
        os.close(rfd)
        ops = [json.loads(l) for l in b"".join(chunks).decode().splitlines() if l]
    _pid, status = os.waitpid(pid, 0)
    return os.waitstatus_to_exitcode(status), ops


def _reset(scratch: str, path: str, old_bytes: bytes | None) -> None:
    for name in os.listdir(scratch):
        full = os.path.join(scratch, name)
        if os.path.isdir(full):
            shutil.rmtree(full, ignore_errors=True)
        else:
            os.unlink(full)
    if old_bytes is not None:
        with open(path, "wb") as fil:
            fil.write(old_bytes)


def _dir_state(scratch: str) -> dict:
    state = {}
    inodes: dict = {}
    for name in sorted(os.listdir(scratch)):
        full = os.path.join(scratch, name)
        if os.path.islink(full):
            state[name] = ("symlink", os.readlink(full))
        elif os.path.isfile(full):
            info = os.stat(full)
            if info.st_nlink > 1 and info.st_ino in inodes:
                state[name] = ("hardlink", inodes[info.st_ino])  # another name of a file already listed
                continue
            inodes[info.st_ino] = name
            with open(full, "rb") as fil:
                state[name] = fil.read()
            state[name + "\0mode"] = info.st_mode & 0o777
    return state


def _restore(scratch: str, state: dict) -> None:
    for name in os.listdir(scratch):
        full = os.path.join(scratch, name)
        if os.path.isdir(full) and not os.path.islink(full):
            shutil.rmtree(full, ignore_errors=True)
        else:
            os.unlink(full)
    for name, data in state.items():
        if name.endswith("\0mode") or (isinstance(data, tuple) and data[0] == "hardlink"):
            continue
        if isinstance(data, tuple):
            os.symlink(data[1], os.path.join(scratch, name))
            continue
        with open(os.path.join(scratch, name), "wb") as fil:
            fil.write(data)
        if state.get(name + "\0mode") is not None:
            os.chmod(os.path.join(scratch, name), state[name + "\0mode"])
        if AGE[0]:
            import time

            old = time.time() - AGE[0]
            os.utime(os.path.join(scratch, name), (old, old))  # the previous save happened that long ago
    for name, data in state.items():
        if isinstance(data, tuple) and data[0] == "hardlink":
            os.link(os.path.join(scratch, data[1]), os.path.join(scratch, name))  # (a snapshot made with cp -l / rsnapshot)


def _sweep(scratch: str, path: str, start: dict, saving: dict, allowed: list, new_bytes: bytes, known: dict, only=None, label: str = ""):
    """Kill a save of `saving` at every file operation, starting from directory state `start`.

    Returns (unknown failure or None, first known failure or None, forks, ops, survivors) where survivors are the
    (directory state after crash AND load, registry that load returned) pairs of the crash points that passed.
    """
    live = os.path.basename(path)
    _restore(scratch, start)
    code, ops = _fork(scratch, path, saving, -1, None, True)
    forks = 1
    if code == 3:
        # the flow itself raised in the child although nothing was killed (the parent's run of the same flow went through)
        return fail(f"undisturbed-run-raises-in-child{label}", f"{label}without any crash, saving through '{HOW[0]}' raised in the forked child", nontrivial=True), None, forks, ops, []
    if code != 0:
        raise RuntimeError(f"dry run of save failed in the child (exit {code})")
    if not any(op["kind"] in ("open", "write") for op in ops):
        # the save went through an interface this harness does not intercept: say so instead of passing vacuously
        raise RuntimeError(f"save performed no intercepted file operation (ops: {ops!r}); C15's crash model needs extending")
    status, loaded = env.run(c13._load(path))
    if status != "ok" or loaded != allowed[-1]:
        return fail(f"completed-save-does-not-load-as-new{label}", f"after a complete save the file loads as {status} {str(loaded)[:200]!r}", nontrivial=True), None, forks, ops, []
    points: list[tuple[int, int | None]] = []
    for idx, op in enumerate(ops):
        points.append((idx, None))
        if op["kind"] == "write" and op["size"] > 1:
            for part in sorted({1, op["size"] // 2, op["size"] - 1}):
                if 0 < part < op["size"]:
                    points.append((idx, part))
    if only is not None:
        points = [tuple(only[:2])]
    only_live = all(op.get("path", live) == live and op["kind"] in ("open", "write", "close", "truncate") for op in ops)
    known_failure = None
    survivors = []
    modes = [(c, p, False) for c, p in points] + ([(c, p, True) for c, p in points if p is None] if only is None or (len(only) > 2 and only[2]) else [])
    if only is not None and len(only) > 2 and only[2]:
        modes = [(only[0], only[1], True)]
    for crash_at, partial, soft in modes:
        _restore(scratch, start)
        SOFT[0] = soft
        try:
            code, _ = _fork(scratch, path, saving, crash_at, partial, False)
        finally:
            SOFT[0] = False
        forks += 1
        if code == 3:
            return fail(f"run-raises-before-crash-point{label}", f"{label}saving through '{HOW[0]}' raised in the child before reaching operation {crash_at} (it did not in the dry run)", nontrivial=True), known_failure, forks, ops, survivors
        if code != 0:
            raise RuntimeError(f"crash child exited with {code}")
        on_disk = None
        if os.path.exists(path):
            with open(path, "rb") as fil:
                on_disk = fil.read()
        status, loaded = env.run(c13._load(path))
        if on_disk is not None and not os.stat(path).st_mode & 0o400:
            # (this harness may run as root, who reads anything: for the process that owns the file, open() fails with EACCES)
            status, loaded = "liberr", "the owner's read permission is gone from the file (mode %o): an ordinary process cannot open it" % (os.stat(path).st_mode & 0o777)
        if status == "ok" and any(loaded == snap for snap in allowed):
            survivors.append((_dir_state(scratch), loaded))
            continue
        op = ops[crash_at]
        where = f"{label}{'interrupt (KeyboardInterrupt) at' if soft else 'crash before'} op {crash_at} {op}" + (f" after {partial} of {op['size']} bytes" if partial is not None else "")
        result = "read-error" if status != "ok" else ("empty-registry" if not loaded else "other-registry")
        opened_live = any(o["kind"] == "open" and o.get("path") == live and "w" in o.get("mode", "") for o in ops[:crash_at] + ([ops[crash_at]] if partial is not None else []))
        strict_prefix = on_disk is not None and new_bytes.startswith(on_disk) and on_disk != new_bytes
        if opened_live and strict_prefix and only_live:
            # exactly the shape of the listed finding: the save touches nothing but the live file, which it truncates and rewrites in place
            sig = f"torn-in-place-write:file-is-strict-prefix-of-new:{result}"
        elif on_disk is None:
            sig = f"file-missing-after-crash:{result}"
        elif opened_live and strict_prefix:
            sig = f"live-file-truncated-by-other-path:{result}"
        else:
            sig = f"file-damaged:{result}"
        if label and not sig.startswith("torn-in-place-write:"):
            sig = "after-earlier-crash:" + sig
        failure = fail(
            sig,
            f"{where}: file on disk is {('%d bytes' % len(on_disk)) if on_disk is not None else 'missing'} "
            f"({'strict prefix of the new text' if strict_prefix else 'not a prefix of the new text'}; save operations: "
            f"{[(o['kind'], o.get('path', '')) for o in ops]}); load gives {status} {str(loaded)[:160]!r} [only={[crash_at, partial, soft]}]",
            nontrivial=True,
        )
        if sig in known:
            known_failure = known_failure or failure  # a listed finding: keep enumerating behind it
            continue
        return failure, known_failure, forks, ops, survivors
    return None, known_failure, forks, ops, survivors


def run_case(case: dict) -> Outcome:
    new = case["new"]
    old = new if case.get("same") else case["old"]
    scratch = tempfile.mkdtemp(prefix="vf-c15-", dir=c13.SCRATCH_BASE)
    path = os.path.join(scratch, case.get("file_name") or "persistence.json")
    forks_total = 0
    info = {"inside": 0, "ops": 0, "second": 0}
    known = load_known(ID)
    known_failure: Outcome | None = None
    cwd_before = os.getcwd()
    PATH_FORM[0] = case.get("path_form") or "absolute"
    PRIOR_SAVES[0] = int(case.get("prior_saves") or 0)
    DEBUG_LOG[0] = bool(case.get("debug_log"))
    try:
        if PATH_FORM[0] != "absolute":
            os.chdir(scratch)  # the application runs in its data directory and configures a relative path

        async def save_real(reg: dict) -> tuple[bytes, dict]:
            gateway = Gateway(env.RecordingTransport(), Config(persistence_file=_cfg_path(path)))
            env.install_registry(gateway.nodes, reg)
            await gateway.persistence.save()
            with open(path, "rb") as fil:
                return fil.read(), env.snapshot(gateway.nodes)

        how = case.get("how", "save")
        HOW[0] = how
        AGE[0] = int(case.get("old_age") or 0)
        start: dict = {}
        old_snap: dict = {}
        if old is not None:
            old_bytes, old_snap = env.run(save_real(old))
            layout = case.get("old_layout", "native")
            native_state = _dir_state(scratch)
            legacy_written = False
            if layout != "native" and not any(n["sleeping"] for n in old_snap.values()):
                legacy_written = True
                # the previous session was pymysensors (or an old release): same registry, legacy layout on disk
                old_bytes = json.dumps(c13._legacy(old_snap, layout == "legacy-nulls"), indent=2).encode()
                _restore(scratch, {os.path.basename(path): old_bytes})  # (a directory written by that other program: nothing of this library's in it)
                status, loaded_old = env.run(c13._load(path))
                if status != "ok":
                    raise RuntimeError(f"legacy form of the old registry does not load: {loaded_old!r}")
                old_snap = loaded_old
            # everything the library's own completed save left in the directory (not just the registry file)
            start = {os.path.basename(path): old_bytes} if legacy_written else native_state
            if case.get("hardlink") and not legacy_written:
                # the old file has a second name (a hard-link snapshot of the data directory)
                start = dict(start)
                start["snapshot-of-" + os.path.basename(path)] = ("hardlink", os.path.basename(path))
            if case.get("link"):
                # the configured path is a symbolic link to the real file (a synced or mounted configuration directory)
                os.unlink(path)
                start = {"synced-registry.json": old_bytes, os.path.basename(path): ("symlink", "synced-registry.json")}

        async def final_state() -> tuple[bytes, dict]:
            # what a complete, undisturbed run of the same flow leaves behind
            _restore(scratch, start)
            gateway = Gateway(env.RecordingTransport(), Config(persistence_file=_cfg_path(path)))
            await _flow(gateway, new, how)
            with open(path, "rb") as fil:
                return fil.read(), env.snapshot(gateway.nodes)

        try:
            new_bytes, new_snap = env.run(final_state())
        except Exception as err:  # noqa: BLE001
            return fail(f"undisturbed-run-raises:{how}:{type(err).__name__}", f"without any crash, saving through '{how}' raised {err!r}: the registry never reached the file", nontrivial=True)
        allowed = [old_snap, new_snap]
        if old is None and how in ("load-save", "context"):
            allowed = [{}, new_snap]  # load creates the missing file from the (still empty) registry first
        failure, kfail, forks, ops, survivors = _sweep(scratch, path, start, new, allowed, new_bytes, known, case.get("only"))
        forks_total += forks
        info["ops"] = len(ops)
        known_failure = known_failure or kfail
        if old_snap != new_snap and old_snap:
            info["inside"] = max(len(ops) - 1, 0)
        if failure is not None:
            failure.extra_evals = forks_total - 1
            return failure
        if case.get("second") and "only" not in case:
            # the restarted process saves again and crashes again: each state a first crash (and the load after it) left
            # behind is the starting point of a second sweep
            third = dict(new)
            third["77"] = {"node_id": 77, "node_type": 17, "protocol_version": "2.2.0", "sketch_name": "second session", "sketch_version": "", "battery_level": 1,
                           "heartbeat": 0, "sleeping": False, "children": {}}
            seen = set()
            for state, loaded in survivors:
                key = tuple(sorted((n, hash(d)) for n, d in state.items()))
                if key in seen:
                    continue
                seen.add(key)
                merged = dict(loaded)
                gateway_view = dict(merged)
                gateway_view.update({"77": third["77"]})
                # what the second session saves: what it loaded plus one more node; exactly what it loaded (the first scheduled
                # save after a restart); a registry the application has pruned to one node (a shorter text than anything written before)
                smallest = dict(list(merged.items())[:1]) or {"77": third["77"]}
                for saving in ({k: v for k, v in gateway_view.items()}, dict(merged), smallest):
                    _restore(scratch, state)
                    third_bytes, third_snap = env.run(save_real(saving))
                    HOW[0] = "save"
                    failure, kfail, forks, _ops2, _s2 = _sweep(scratch, path, state, saving, [loaded, third_snap], third_bytes, known, None, label="second save: ")
                    forks_total += forks
                    info["second"] += 1
                    if failure is not None:
                        failure.extra_evals = forks_total - 1
                        return failure
    finally:
        AGE[0] = 0
        PRIOR_SAVES[0] = 0
        DEBUG_LOG[0] = False
        PATH_FORM[0] = "absolute"
        os.chdir(cwd_before)
        shutil.rmtree(scratch, ignore_errors=True)
    if known_failure is not None:
        known_failure.extra_evals = forks_total - 1
        return known_failure
    classes = (("live-path-is-a-symlink",) if case.get("link") else ()) + ((f"path-form={case['path_form']}",) if case.get("path_form") not in (None, "absolute") else ()) + (f"how={case.get('how', 'save')}", f"old-layout={case.get('old_layout', 'native')}", f"ops={min(info['ops'], 12)}", "old=none" if old is None else ("old=empty" if not old else "old=nonempty"), "same" if case.get("same") else "different") + (("two-crashes",) if info["second"] else ())
    return Outcome(ok=True, nontrivial=info["inside"] > 0, classes=classes, extra_evals=forks_total - 1)
