"""C12 - send never silently discards a message (DESIGN 4.12)."""

from __future__ import annotations

import asyncio

from collections import Counter

from hypothesis import strategies as st

from aiomysensors.exceptions import InvalidMessageError
from aiomysensors.model.message import Message

from vf import drive, env, gen
from vf.codec_ref import INTERNAL_MAX, plain_int, ref_format, ref_protocol
from vf.runner import Outcome, fail

ID = "C12"
LEVEL = "exploration"
DESIGN_REF = "4.12"
RULE = (
    "cases = protocol version x destination state (unknown / awake / sleeping, registered like persistence does) x a message the reference "
    "acceptor accepts (all five commands, types from the spec tables and arbitrary integers, both ack values, payloads incl. ';') x buffering "
    "argument (default / True / False); plus non-messages (None, str, bytes, int, float, dict with the six fields, list, tuple, object()). Oracle: the "
    "send ends in exactly one of: (1) the reference-formatted line is written once during the call and nothing else; (2) nothing written, no "
    "error, the destination is sleeping, and after that node's next wake (heartbeat response / pre-sleep; for 1.x after a version report "
    "upgrading to 2.2) the line has been written exactly once; (3) an AIOMySensorsError. A non-message must raise InvalidMessageError. "
    "A 'hist' kind runs histories of sends (all commands) interleaved with received wake, presentation and other messages on one gateway: every send must end in one of the three ways, and a line held for a sleeping node (the latest per child/type for set commands) is owed at that node's next wake. A 'race' kind replays small send-versus-flush configurations under every schedule (C09's scheduler): a send that returned normally must still reach the transport. Enumerated part: every command x type 0..max+1 of the version's table x destination x buffering. Non-trivial = command other than set, "
    "or a sleeping destination; distinct = distinct case JSON."
    ' Round 5: histories contain `session`, `save`, `reload` and `fault n` events; two parked commands + one event of every kind + two wakes enumerated.'
    ' Round 6: destinations registered and presented with arbitrary version texts.'
    ' Round 7: incoming sets with the ack flag (echoes) between park and wake.'
    ' Round 8: `bystander` gateway holding its own command for the same node id.'
    ' Round 9: `hang k` (the k-th write of the next received line never completes; the listener is cancelled).'
    ' Round 10: an equal command parked again after an earlier wake delivered it (enumerated).'
    ' Round 11: environment sweep (see C03), judged on sendwrites, flush and writes: reboot flag on a sleeping node, children of sensor types outside the tables.'
    ' Round 12: `concurrent` kind (several tasks send equal / different messages through gated writes); process-clock jumps between hold and wake; pass under `python -O`.'
)
ASSUMPTIONS = [
    "for protocols 1.4/1.5, which have no wake message, 'next wake' is observed after the gateway reports 2.2.0 and the node sends a pre-sleep notification",
]

DELETABLE = ("ops",)
DEST = 7
NONMSG = ("none", "str", "int", "dict", "object", "list", "bytes", "float", "tuple")


def budgets(tier: str) -> dict:
    if tier == "quick":
        return {"examples": 2500, "shards": 4, "enum_shards": 4}
    return {"examples": 100000, "shards": 16, "enum_shards": 16}


def strategy(tier: str):
    msg = gen.wellformed_message().map(lambda m: [DEST] + m[1:])
    normal = st.fixed_dictionaries(
        {
            "kind": st.just("msg"),
            "version": gen.versions_any,
            "dest": st.sampled_from(("unknown", "awake", "sleeping", "sleeping")),
            "msg": msg,
            "buffer": st.sampled_from((None, None, True, False)),
        }
    )
    odd = st.fixed_dictionaries({"kind": st.just("nonmsg"), "version": gen.versions_any, "obj": st.sampled_from(NONMSG), "buffer": st.sampled_from((None, False))})
    return gen.weighted((5, normal), (1, odd), (3, _hist_strategy()))


def opt_cases(tier: str):
    """Cases also executed by an interpreter started with -O (see vf/optpass.py)."""
    return drive.opt_sweep_cases(tier)


def enumerate_cases(tier: str):
    # one event of every kind under every environment dimension (transport kind, logging, warnings, a bystander gateway, registry file, ...)
    yield from drive.all_sweep_cases()
    # several tasks send at once (equal and different messages, every command kind) to an awake, an unknown and a sleeping destination
    for version in ("1.4", "2.0", "2.2"):
        for dest in ("awake", "unknown", "sleeping"):
            if dest == "sleeping" and version.startswith("1"):
                continue
            for base in ([3, 1, 1, 0, 2, "1"], [3, 1, 1, 1, 2, "1"], [3, 1, 2, 0, 2, ""], [3, 255, 3, 0, 13, ""], [3, 255, 4, 0, 0, "00"]):
                other = base[:5] + ["0" if base[5] != "0" else "1"]
                for msgs in ([base, base], [base, base, base], [base, other], [base, other, base]):
                    for buffer in (None, False):
                        yield {"kind": "concurrent", "version": version, "dest": dest, "msgs": msgs, "buffer": buffer}
    for version in ("2.0", "2.2"):
        for parked in (1, 2):
            for senders in ([[0, True]], [[0, True], [0, True]], [[1, True], [3, True]], [[0, False], [0, True]]):
                yield {"kind": "race", "config": {"version": version, "parked": parked, "other_parked": 0, "senders": senders}}
    # the echo of an earlier command (incoming set with the ack flag) arrives while a newer command for the same key is held
    for version in ("2.0", "2.1", "2.2"):
        wake = ["rx", f"11;255;3;0;{32 if version == '2.2' else 22};7\n"]
        for ack_b in (0, 1):
            for echo in ("11;1;1;1;3;0\n", "11;1;1;1;3;1\n", "11;1;1;0;3;0\n", "11;2;1;1;3;0\n", "11;1;2;1;3;\n"):
                ops = [["send", [11, 1, 1, 1, 3, "0"], None], wake, ["send", [11, 1, 1, ack_b, 3, "1"], None], ["rx", echo], wake, wake]
                yield {"kind": "hist", "version": version, "ops": ops}
    # the same command again after it was delivered once (the node was switched back by hand in between): held and delivered again
    for version in ("2.0", "2.1", "2.2"):
        wake = ["rx", f"11;255;3;0;{32 if version == '2.2' else 22};7\n"]
        for ack in (0, 1):
            for between in ([], [["rx", "11;1;1;0;3;0\n"]], [["send", [11, 1, 1, ack, 3, "0"], None], wake]):
                ops = [["send", [11, 1, 1, ack, 3, "1"], None], wake] + between + [["send", [11, 1, 1, ack, 3, "1"], None], wake, ["send", [11, 1, 1, ack, 3, "1"], None], ["send", [11, 2, 1, ack, 3, "1"], None], wake, wake]
                yield {"kind": "hist", "version": version, "ops": ops}
    # destinations registered with every kind of version text
    for version in ("1.5", "2.0", "2.2"):
        for text in ("", "unknown", "2.0.0-beta", "1.4", "2.2.0", "x.y", " ", "2", "v2.1"):
            ops = [["send", [11, 1, 1, 0, 3, "0"], None], ["send", [2, 1, 1, 1, 23, "1"], None], ["send", [1, 1, 1, 0, 3, "1"], None], ["send", [11, 255, 3, 0, 13, ""], None],
                   ["rx", f"11;255;3;0;{32 if version == '2.2' else 22};7\n"], ["rx", f"2;255;3;0;{32 if version == '2.2' else 22};7\n"]]
            yield {"kind": "hist", "version": version, "node_versions": [text, text, text], "ops": ops}
    # two commands held for a sleeping node, one event of every kind, then the wake (twice): both are still owed
    for version in ("2.0", "2.1", "2.2"):
        wake = ["rx", f"11;255;3;0;{32 if version == '2.2' else 22};7\n"]
        for event in (["session"], ["save"], ["reload"], ["fault", 1], ["fault", 2], ["hang", 0], ["hang", 1], ["hang", 2], ["bystander", "x"], ["bystander_wake"], ["rx", "0;255;3;0;14;Gateway startup complete.\n"], ["rx", "11;255;0;0;17;2.0\n"],
                      ["rx", "0;255;3;0;2;2.2.0\n"], ["rx", "11;1;1;0;3;1\n"], ["rx", "2;255;3;0;22;7\n"], ["rx", "junk\n"]):
            for cmds in ([[11, 1, 1, 0, 3, "0"], [11, 2, 1, 0, 3, "1"]], [[11, 1, 1, 0, 3, "0"], [11, 1, 1, 1, 23, "1"], [11, 2, 2, 0, 3, ""]]):
                ops = [["send", m, None] for m in cmds] + [event, wake, wake]
                yield {"kind": "hist", "version": version, "ops": ops}
                if event[0] == "bystander":
                    yield {"kind": "hist", "version": version, "ops": [event] + [["send", m, None] for m in cmds] + [["bystander_wake"], wake, wake]}
                    yield {"kind": "hist", "version": version, "ops": [["send", m, None] for m in cmds] + [event, ["bystander_wake"], wake, wake]}
                yield {"kind": "hist", "version": version, "ops": [["session"]] + ops}
    versions = ("1.4", "1.5", "2.0", "2.1", "2.2") if tier == "thorough" else ("1.5", "2.2")
    for version in versions:
        for dest in ("unknown", "awake", "sleeping"):
            for buffer in (None, False):
                for mtype in range(0, INTERNAL_MAX[version] + 2):
                    yield {"kind": "msg", "version": version, "dest": dest, "msg": [DEST, 255, 3, 0, mtype, "1"], "buffer": buffer}
                for mtype in range(0, 7):
                    yield {"kind": "msg", "version": version, "dest": dest, "msg": [DEST, 255, 4, 0, mtype, "00"], "buffer": buffer}
                for cmd, child in ((0, 1), (0, 255), (1, 1), (2, 1)):
                    for mtype in (0, 2, 17, 49, 99):
                        yield {"kind": "msg", "version": version, "dest": dest, "msg": [DEST, child, cmd, 0, mtype, "x"], "buffer": buffer}


def _build(obj: str):
    if obj == "none":
        return None
    if obj == "str":
        return "7;1;1;0;2;1\n"
    if obj == "int":
        return 5
    if obj == "dict":
        return {"node_id": 7, "child_id": 1, "command": 1, "ack": 0, "message_type": 2, "payload": "1"}
    if obj == "object":
        return object()
    if obj == "list":
        return [7, 1, 1, 0, 2, "1"]
    if obj == "bytes":
        return b"7;1;1;0;2;1\n"
    if obj == "float":
        return 1.5
    return (7, 1, 1, 0, 2, "1")


def _run_nonmsg(case: dict) -> Outcome:
    classes = ("nonmsg", f"obj={case['obj']}")

    async def go():
        gateway, transport = env.make_gateway(case["version"])
        status, value = await env.send(gateway, _build(case["obj"]), case["buffer"])
        return status, value, list(transport.attempts)

    status, value, attempts = env.run(go())
    if status == "leak":
        return fail(f"nonmessage-leak:{type(value).__name__}", f"send({case['obj']}) raised {value!r}", classes=classes)
    if status == "ok":
        return fail("nonmessage-accepted", f"send({case['obj']}) returned normally (writes: {attempts!r})", classes=classes)
    if not isinstance(value, InvalidMessageError):
        return fail("nonmessage-wrong-error", f"send({case['obj']}) raised {value!r}, want InvalidMessageError", classes=classes)
    return Outcome(ok=True, nontrivial=True, classes=classes)


def _run_concurrent(case: dict) -> Outcome:
    """Several tasks call send at the same time (equal or different messages) while the transport's writes are slow: every call
    that returns normally has its line handed to the transport (once per call) or held for the sleeping destination."""
    import asyncio

    from vf.props import c09

    version, dest, msgs = case["version"], case["dest"], case["msgs"]
    classes = ("concurrent", f"dest={dest}", f"senders={len(msgs)}", "equal-messages" if len({tuple(m) for m in msgs}) < len(msgs) else "distinct-messages")

    async def go() -> Outcome | None:
        transport = c09.GatedTransport()
        gateway, _ = env.make_gateway(version, transport=transport)
        if dest != "unknown":
            env.install_registry(gateway.nodes, {str(msgs[0][0]): {"sleeping": dest == "sleeping", "children": {"1": {"child_type": 3}}}})
        transport.gating = True
        tasks = [asyncio.ensure_future(env.send(gateway, env.mk_message(m), case.get("buffer"))) for m in msgs]
        for _ in range(200):
            await c09._settle(transport, tasks)
            open_writes = [fut for _line, fut in transport.blocked if not fut.done()]
            if not open_writes:
                break
            open_writes[0].set_result(None)
        if any(not t.done() for t in tasks):
            for t in tasks:
                t.cancel()
            return fail("concurrent:send-never-returns", f"{len(msgs)} concurrent sends of {msgs!r} to a {dest} destination: some never return although every write was let through")
        results = [t.result() for t in tasks]
        for (status, value), m in zip(results, msgs):
            if status == "leak":
                return fail(f"send-leak:cmd={m[2]}:{type(value).__name__}", f"concurrent send of {m!r} raised {value!r}")
        wrote = Counter(line for _tick, line in transport.calls)
        returned = Counter(ref_format(*m) for (status, _v), m in zip(results, msgs) if status == "ok")
        transport.gating = False
        if dest == "sleeping":
            # whatever was held is owed at the wake
            before = len(transport.calls)
            wake_t = 32 if version.startswith("2.2") else 22
            await env.rx(gateway, f"{msgs[0][0]};255;3;0;{wake_t};1\n")
            wrote.update(line for _tick, line in transport.calls[before:])
            latest: dict = {}
            for (status, _v), m in zip(results, msgs):
                if status == "ok" and m[2] == 1:
                    latest[(m[0], m[1], m[4])] = ref_format(*m)
            for line in set(returned):
                if wrote[line] == 0 and (line.split(";")[2] != "1" or line in latest.values() or len(set(latest.values())) == 0):
                    return fail("concurrent:accepted-and-never-written", f"sends of {msgs!r} to a sleeping node returned normally; {line!r} was neither written nor handed over at the wake (written: {dict(wrote)!r})")
            return None
        for line, count in returned.items():
            if wrote[line] != count:
                return fail("concurrent:accepted-and-not-written", f"{count} concurrent send calls of {line!r} to a {dest} destination returned normally; the transport was handed the line {wrote[line]} times")
        return None

    bad = env.run(go())
    if bad is not None:
        bad.classes = classes
        return bad
    return Outcome(ok=True, nontrivial=True, classes=classes)


def _run_race(case: dict) -> Outcome:
    """A send that returns normally while the wake-up flush is in progress must not be dropped (all schedules, C09's machinery)."""
    from vf.props import c09

    bad, count, raced, _trunc = c09._explore(case["config"])
    classes = ("race",)
    if bad is not None and not bad.ok:
        bad.sig = f"race:{bad.sig}"
        bad.classes = classes
        bad.extra_evals = count - 1
        return bad
    return Outcome(ok=True, nontrivial=raced, classes=classes, extra_evals=count - 1)


def _hist_strategy():
    node = st.sampled_from((1, 11, 11, 7, 2))

    def retarget(m, n):
        return [n] + m[1:]

    send = st.builds(lambda m, n, b: ["send", retarget(m, n), b], gen.wellformed_message(), node, st.sampled_from((None, None, True, False)))
    send_set = st.builds(lambda n, c, t, v, b: ["send", [n, c, 1, 0, t, v], b], node, st.sampled_from((1, 2, 12)), st.sampled_from((3, 23)), st.one_of(st.sampled_from(("0", "1", "1", "0")), gen.short_payloads), st.sampled_from((None, None, False)))
    send_req = st.builds(lambda n, c, t, b: ["send", [n, c, 2, 0, t, ""], b], node, st.sampled_from((1, 2, 12)), st.sampled_from((3, 23)), st.sampled_from((None, None, True)))
    send_internal = st.builds(lambda n, t, p, b: ["send", [n, 255, 3, 0, t, p], b], node, st.sampled_from((19, 19, 13, 18, 24, 4)), st.sampled_from(("", "1")), st.sampled_from((None, None, True, False)))
    wake = st.builds(lambda n, t: ["rx", f"{n};255;3;0;{t};7\n"], node, st.sampled_from((22, 32)))
    other = st.one_of(
        st.builds(lambda n, v: ["rx", f"{n};255;0;0;17;{v}\n"], node, st.sampled_from(("2.0", "2.0", "", "unknown", "2.0.0-beta", "1.4", "2.2.0"))),
        st.builds(lambda n, c: ["rx", f"{n};{c};0;0;3;relay\n"], node, st.sampled_from((1, 2, 12))),
        st.builds(lambda n, c, a, t, v: ["rx", f"{n};{c};1;{a};{t};{v}\n"], node, st.sampled_from((1, 2, 12, 9)), st.sampled_from((0, 1, 1)), st.sampled_from((3, 23)), st.sampled_from(("0", "1"))),
        st.builds(lambda n, c, t: ["rx", f"{n};{c};2;0;{t};\n"], node, st.sampled_from((1, 2, 12, 9)), st.sampled_from((3, 23))),
        st.builds(lambda n: ["rx", f"{n};255;3;0;0;50\n"], node),
        st.sampled_from((["rx", "0;255;3;0;9;log\n"], ["rx", "junk\n"], ["rx", "0;255;3;0;2;2.2.0\n"])),
    )
    # what the application and the link do meanwhile: reconnect on the same gateway object, registry saved / reloaded, the next writes fail
    events = st.sampled_from((["session"], ["session"], ["save"], ["reload"], ["fault", 1], ["fault", 1], ["fault", 2], ["bystander", "a"], ["bystander", "b"], ["bystander_wake"], ["hang", 0], ["hang", 1]))
    return st.fixed_dictionaries(
        {
            "kind": st.just("hist"),
            "version": gen.versions_any,
            # the version text each destination presented itself with (free text: never validated)
            "node_versions": st.lists(st.sampled_from(("2.0", "1.4", "", "unknown", "2.0.0-beta", "2.2.0", "x.y", "1.5.1")), min_size=3, max_size=3),
            "ops": st.lists(gen.weighted((4, send), (3, send_set), (2, send_req), (2, send_internal), (2, wake), (3, other), (1, events)), min_size=6, max_size=25),
        }
    )


def _run_hist(case: dict) -> Outcome:
    """Every send in a history ends in one of the three ways; parked lines are owed at the node's next wake."""
    info = {"parked": 0, "released": 0, "errors": 0}

    async def go() -> Outcome | None:
        gateway, transport = env.make_gateway(case["version"])
        v1, v11, v2 = case.get("node_versions") or ("1.4", "1.4", "1.4")
        env.install_registry(gateway.nodes, {"1": {"protocol_version": v1, "children": {"1": {"child_type": 3}}},
                                            "11": {"protocol_version": v11, "sleeping": True, "children": {"1": {"child_type": 3, "values": {"3": "1", "23": "0"}}, "2": {"child_type": 3}, "12": {"child_type": 3}}},
                                            "2": {"protocol_version": v2, "sleeping": True, "children": {"1": {"child_type": 3, "values": {"23": "1"}}}}})
        owed: dict[int, dict] = {}  # node -> {key: line}; set commands keep the latest per (child, type)

        async def expect_release(node: int, wrote: list[str], where: str) -> Outcome | None:
            pending = owed.pop(node, {})
            for line in pending.values():
                if wrote.count(line) < 1:
                    return fail(f"hist:parked-never-written:cmd={line.split(';')[2]}", f"{where}: {line!r} was held for sleeping node {node} and is not among the writes of its wake: {wrote!r}")
            info["released"] += len(pending)
            return None

        in_session = False
        persistence = None
        tmpdir = None
        for idx, op in enumerate(case["ops"]):
            transport.step = idx
            where = f"step {idx} {str(op)[:100]} under {case['version']}"
            if op[0] == "session":
                if in_session:
                    await gateway.__aexit__(None, None, None)
                await gateway.__aenter__()
                in_session = True
                info["events"] = info.get("events", 0) + 1
                continue
            if op[0] in ("save", "reload"):
                if persistence is None:
                    import os
                    import tempfile

                    from aiomysensors.persistence import Persistence

                    tmpdir = tempfile.mkdtemp(prefix="vfc12-", dir="/dev/shm" if os.path.isdir("/dev/shm") else None)
                    info["tmpdir"] = tmpdir
                    persistence = Persistence(gateway.nodes, os.path.join(tmpdir, "registry.json"))
                await (persistence.save() if op[0] == "save" else persistence.load())
                info["events"] = info.get("events", 0) + 1
                continue
            if op[0] == "bystander":
                # another gateway object in the same process (a second network) has the same node id asleep and holds its own command
                other, other_t = env.make_gateway(case["version"])
                env.install_registry(other.nodes, {"11": {"sleeping": True, "children": {"1": {"child_type": 3}, "2": {"child_type": 3}}}, "2": {"sleeping": True, "children": {"1": {"child_type": 3}}}})
                status, value = await env.send(other, env.mk_message([11, 1, 1, 0, 3, f"other-{op[1]}"]))
                held = status == "ok" and not other_t.writes
                info.setdefault("others", []).append((other, other_t, f"11;1;1;0;3;other-{op[1]}\n", held))
                info["events"] = info.get("events", 0) + 1
                continue
            if op[0] == "bystander_wake":
                for other, other_t, own_line, held in info.get("others", []):
                    before_n = len(other_t.writes)
                    rules = other.protocol.VERSION
                    await env.rx(other, f"11;255;3;0;{32 if rules == '2.2' else 22};7\n")
                    wrote = [w for _s, w in other_t.writes[before_n:]]
                    foreign = [w for w in wrote if w != own_line and w.split(";")[2] == "1"]
                    if foreign:
                        return fail("hist:command-written-to-another-gateway", f"{where}: the other gateway's transport received {foreign!r}, which were sent through this one")
                continue
            if op[0] == "hang":
                # the k-th write from now on never completes; the application's receive timeout cancels the listener in the middle of it
                info["hang_next_rx"] = int(op[1])  # (applies to the writes made while the NEXT received line is handled)
                info["events"] = info.get("events", 0) + 1
                continue
            if op[0] == "fault":
                start = len(transport.attempts)
                transport.fail_attempts = set(range(start, start + int(op[1])))
                info["events"] = info.get("events", 0) + 1
                continue
            if op[0] == "send":
                msg, buffer = op[1], op[2]
                line = ref_format(*msg)
                dest = gateway.nodes.get(msg[0])
                sleeping = bool(dest is not None and dest.sleeping)
                status, value = await env.send(gateway, env.mk_message(msg), buffer)
                wrote = transport.writes_at(idx)
                if status == "leak":
                    return fail(f"hist:send-leak:cmd={msg[2]}:{type(value).__name__}", f"{where}: {value!r}")
                if status == "liberr":
                    info["errors"] += 1
                    continue
                if wrote:
                    if wrote != [line]:
                        return fail(f"hist:wrong-write:cmd={msg[2]}", f"{where}: wrote {wrote!r}, the encoded line is {line!r}")
                    continue
                if not sleeping:
                    return fail(f"hist:silently-discarded:cmd={msg[2]}", f"{where}: nothing written, no error, destination {'unknown' if dest is None else 'awake'}")
                key = (msg[1], msg[4]) if msg[2] == 1 else ("other", idx)
                owed.setdefault(msg[0], {})[key] = line
                info["parked"] += 1
                continue
            line = op[1]
            parts = line.split(";")
            if info.get("hang_next_rx") is not None:
                target = len(transport.attempts) + info.pop("hang_next_rx")
                transport.hang_pred = lambda _line, target=target: len(transport.attempts) == target
            if transport.hang_pred is not None:
                try:
                    status, value = await asyncio.wait_for(env.rx(gateway, line), 30)
                except asyncio.TimeoutError as err:
                    status, value = "cancelled", err
                    transport.inbox.clear()
                transport.hang_pred = None
            else:
                status, value = await env.rx(gateway, line)
            if status == "leak":
                continue  # C03's subject
            if status != "ok":
                # (a flush cut short by a write fault: what did get written is no longer owed, the rest still is)
                for pending in owed.values():
                    for key in [k for k, l in pending.items() if l in transport.writes_at(idx)]:
                        del pending[key]
            if status == "ok" and len(parts) >= 6 and parts[2] == "3" and plain_int(parts[0]):
                node, mtype = int(parts[0]), parts[4]
                rules = gateway.protocol.VERSION
                is_wake = (mtype == "22" and rules in ("2.0", "2.1")) or (mtype == "32" and rules == "2.2")
                if is_wake:
                    bad = await expect_release(node, transport.writes_at(idx), where)
                    if bad is not None:
                        return bad
        # settle the remaining debts: make the gateway 2.2 and let every debtor announce it is awake
        transport.step = len(case["ops"])
        transport.fail_attempts = set()
        if owed:
            await env.rx(gateway, "0;255;3;0;2;2.2.0\n")
        for node in sorted(owed):
            transport.step += 1
            if node not in gateway.nodes:
                continue  # the node vanished from the registry: nothing can wake it (not generated)
            status, value = await env.rx(gateway, f"{node};255;3;0;32;500\n")
            bad = await expect_release(node, transport.writes_at(transport.step), f"final wake of node {node}")
            if bad is not None:
                return bad
        return None

    try:
        if any(op[0] == "hang" for op in case["ops"]):
            from vf.vloop import Deadlock, run_virtual

            try:
                bad, _loop = run_virtual(go)
            except Deadlock:
                bad = fail("hist:deadlock", "the event loop has nothing left to run")
        else:
            bad = env.run(go())
    finally:
        if info.get("tmpdir"):
            import shutil

            shutil.rmtree(info["tmpdir"], ignore_errors=True)
    classes = ("hist", f"version={case['version']}") + (("hist-events",) if info.get("events") else ()) + (("hist-parked",) if info["parked"] else ()) + (("hist-released",) if info["released"] else ())
    if bad is not None:
        bad.classes = classes
        return bad
    return Outcome(ok=True, nontrivial=info["released"] > 0, classes=classes)


def run_case(case: dict) -> Outcome:
    if case.get("kind") == "envsweep":
        return drive.run_env_case(case, frozenset({"sendwrites", "flush", "writes", "leak"}))
    if case["kind"] == "nonmsg":
        return _run_nonmsg(case)
    if case["kind"] == "race":
        return _run_race(case)
    if case["kind"] == "concurrent":
        return _run_concurrent(case)
    if case["kind"] == "hist":
        return _run_hist(case)
    version, dest, msg, buffer = case["version"], case["dest"], case["msg"], case["buffer"]
    command = msg[2]
    line = ref_format(*msg)
    classes = (f"cmd={command}", f"dest={dest}", f"buffer={buffer}", f"version={version}")
    nontrivial = command != 1 or dest == "sleeping"
    where = f"send({msg}, buffer={buffer}) to {dest} destination under {version}"

    async def go() -> Outcome | None:
        gateway, transport = env.make_gateway(version)
        if dest != "unknown":
            env.install_registry(gateway.nodes, {str(msg[0]): {"sleeping": dest == "sleeping", "children": {"1": {"child_type": 3}}}})
        transport.step = 0
        status, value = await env.send(gateway, env.mk_message(msg), buffer)
        wrote = [l for _s, l in transport.writes]
        if status == "leak":
            return fail(f"send-leak:cmd={command}:{type(value).__name__}", f"{where} raised {value!r}")
        if status == "liberr":
            if wrote:
                return fail(f"error-but-written:cmd={command}", f"{where} raised {value!r} after writing {wrote!r}")
            return None  # outcome (3)
        if wrote:
            if wrote != [line]:
                return fail(f"wrong-write:cmd={command}", f"{where} wrote {wrote!r}, the encoded line is {line!r}")
            # the application edits the object it just sent and sends it again (Message has no copy helper)
            again = env.mk_message(msg)
            await env.send(gateway, again, buffer)
            transport.writes.clear()
            again.payload = msg[5] + "!"
            again.ack = 1 - msg[3]
            line2 = ref_format(msg[0], msg[1], msg[2], 1 - msg[3], msg[4], msg[5] + "!")
            status2, value2 = await env.send(gateway, again, buffer)
            wrote2 = [l for _s, l in transport.writes]
            if status2 == "ok" and wrote2 and wrote2 != [line2]:
                return fail(f"resend-wrong-write:cmd={command}", f"{where}: the same Message object, edited and sent again, wrote {wrote2!r}; its encoded line is {line2!r}")
            return None  # outcome (1)
        if dest != "sleeping":
            return fail(f"silently-discarded:cmd={command}:dest={dest}", f"{where}: nothing written, no error, destination not sleeping")
        # outcome (2) must be completed by the node's next wake
        transport.step = 1
        rules = ref_protocol(version) or "1.4"
        if rules in ("1.4", "1.5"):
            await env.rx(gateway, "0;255;3;0;2;2.2.0\n")
            transport.writes.clear()
            wake = f"{msg[0]};255;3;0;32;500\n"
        elif rules == "2.2":
            wake = f"{msg[0]};255;3;0;32;500\n"
        else:
            wake = f"{msg[0]};255;3;0;22;5\n"
        wstatus, wvalue = await env.rx(gateway, wake)
        released = [l for _s, l in transport.writes]
        if wstatus != "ok":
            return fail(f"wake-raised:cmd={command}", f"{where}: parked, then the wake {wake!r} gave {wvalue!r}")
        if released.count(line) != 1:
            return fail(f"parked-never-written:cmd={command}", f"{where}: nothing written at send time; the wake {wake!r} released {released!r}, want {line!r} once")
        extra = [l for l in released if l != line]
        if extra:
            return fail(f"wake-extra-writes:cmd={command}", f"{where}: wake released {released!r}")
        # a second wake must not repeat it
        await env.rx(gateway, wake)
        if [l for _s, l in transport.writes].count(line) != 1:
            return fail(f"parked-written-twice:cmd={command}", f"{where}: written again at a second wake")
        return None

    bad = env.run(go())
    if bad is not None:
        bad.classes = classes
        return bad
    return Outcome(ok=True, nontrivial=nontrivial, classes=classes)
