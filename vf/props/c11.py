"""C11 - node ids handed out are fresh, in range, and never handed out twice (DESIGN 4.11)."""

from __future__ import annotations

from hypothesis import strategies as st

from vf import drive, env, gen
from vf.runner import Outcome, fail

ID = "C11"
LEVEL = "exploration"
DESIGN_REF = "4.11"
RULE = (
    "cases = protocol version x registry given as a set of ids in 0..255 by shape (empty, dense prefix, sparse random, containing 0/254/255, "
    "nearly full), installed directly like persistence does or through node presentations x 1-20 id requests (broadcast asker and odd "
    "askers/child ids) interleaved with node presentations of further ids, x a set of answers whose write raises AFTER the line reached the wire (a failing drain). Enumerated part: registry {k} and {1..k} for every k in 0..255, "
    "each followed by three requests. Oracle: an answer is 'node;child;3;0;4;<id>' addressed like the request with 1<=id<=254, id not in the "
    "registry before, id in Gateway.nodes at the moment of the write (checked inside the transport) and afterwards, nothing else added; "
    "no id appears twice among the answers that reached the wire; TooManyNodesError only when no id above the highest registered one is free, with no answer and an unchanged registry; any other "
    "outcome is a violation. Non-trivial = sparse registry (count != max id) or a boundary id 253-255 present; distinct = distinct case JSON."
    ' Round 5: version None included; `save`/`reload` of the registry between requests.'
    ' Round 6: traffic of unknown nodes 250-255; `tick` ops advance a fake process clock (time.monotonic/time.time) by seconds to months.'
    ' Round 7: `hang_answers` (answer on the wire, write stalls, listener cancelled); `remove` ops (the application decommissions nodes).'
    ' Round 8: numeric/odd id-request payloads; `two-gateways` kind.'
    ' Round 9: traffic / gateway messages / flags / sessions between requests; a node that vanishes from the registry without the application removing it is reported.'
    ' Round 10: registry and presented nodes of every node type.'
    ' Round 11: environment sweep (see C03) incl. the registry grown through update / setdefault / |=.'
    ' Round 12: pass under `python -O`; eager task factory in the sweep.'
)
ASSUMPTIONS = ["the allocation policy itself is not fixed by the statement: any fresh id in 1..254 is accepted"]
DELETABLE = ("ops", "fail_answers")
ASPECTS = frozenset({"idalloc", "leak"})


def budgets(tier: str) -> dict:
    if tier == "quick":
        return {"examples": 3000, "shards": 4, "enum_shards": 4}
    return {"examples": 100000, "shards": 16, "enum_shards": 16}


_ids = st.one_of(
    st.just([]),
    st.integers(0, 255).map(lambda k: list(range(1, k + 1))),
    st.lists(st.integers(0, 255), max_size=12, unique=True),
    st.lists(st.one_of(st.sampled_from((0, 1, 252, 253, 254, 255)), st.integers(0, 255)), max_size=6, unique=True),
    st.lists(st.integers(0, 255), min_size=0, max_size=6, unique=True).map(lambda missing: [i for i in range(256) if i not in missing]),
    st.lists(st.integers(240, 255), max_size=10, unique=True),
)


def _ops():
    request = st.one_of(
        st.just("255;255;3;0;3;\n"),
        st.just("255;255;3;0;3;\n"),
        st.builds(lambda n, c, a, p: f"{n};{c};3;{a};3;{p}\n", st.sampled_from((0, 1, 7, 254, 255)), st.sampled_from((0, 7, 255)), st.sampled_from((0, 1)), st.sampled_from(("", "x"))),
        # the request's payload is free text for the node to fill: numbers that look like ids, odd spellings
        st.builds(lambda p: f"255;255;3;0;3;{p}\n", st.one_of(st.sampled_from(("0", "1", "2", "3", "7", "253", "254", "255", "256", "-1", " 5", "5 ", "1.0", "٣", "0x5", "1;2")), st.integers(0, 260).map(str))),
    )
    present = st.builds(lambda n, t: f"{n};255;0;0;{t};2.0\n", st.one_of(st.integers(0, 255), st.sampled_from((250, 253, 254, 255))), st.sampled_from((17, 17, 18, 18, 0)))
    install = st.one_of(st.integers(1, 254), st.sampled_from((2, 3, 5, 200, 253, 254))).map(lambda i: ["install", i])
    # traffic of nodes the registry does not know (2.x remembers having asked them to present themselves), time passing
    stranger = st.builds(lambda n, l: ["rx", l.format(n)], st.one_of(st.sampled_from((1, 2, 250, 252, 253, 254, 255)), st.integers(0, 255)),
                         st.sampled_from(("{};1;0;0;6;child\n", "{};1;1;0;0;5\n", "{};255;3;0;0;50\n", "{};1;2;0;0;\n")))
    tick = st.sampled_from((1, 599, 601, 3600, 86400, 10**7)).map(lambda t: ["tick", t])
    # ordinary traffic of registered nodes and of the gateway, application flags: none of it gives an id back
    traffic = st.one_of(
        st.builds(lambda n, l: ["rx", l.format(n)], st.sampled_from((1, 2, 3, 5, 253, 254)), st.sampled_from(("{};1;0;0;6;c\n", "{};1;1;0;0;5\n", "{};255;3;0;11;s\n", "{};255;3;0;22;7\n", "{};255;3;0;32;500\n"))),
        st.sampled_from((["rx", "0;255;3;0;14;Gateway startup complete.\n"], ["rx", "0;255;3;0;9;log\n"], ["rx", "0;255;3;0;18;\n"], ["rx", "0;255;3;0;2;2.2.0\n"], ["rx", "0;255;3;0;2;1.5.1\n"])),
        st.builds(lambda n: ["flag", n, "reboot", True], st.sampled_from((1, 2, 3, 5, 253, 254))),
    )
    remove = st.one_of(st.integers(1, 254), st.sampled_from((1, 2, 3, 250, 253, 254))).map(lambda i: ["remove", i])  # the application decommissions a node
    return st.lists(gen.weighted((6, request.map(lambda l: ["rx", l])), (2, present.map(lambda l: ["rx", l])), (1, install), (1, st.sampled_from((["save"], ["save"], ["reload"]))), (2, stranger), (1, tick), (1, remove), (3, traffic)), min_size=3, max_size=20)


def strategy(tier: str):
    return st.fixed_dictionaries(
        {"version": st.one_of(st.none(), gen.versions_any, gen.versions_any, gen.versions_any), "ids": _ids, "install": st.sampled_from(("direct", "presented")), "ops": _ops(), "listen_mode": st.sampled_from(("fresh", "persistent")), "debug_log": st.sampled_from((False, False, True)),
         "fail_answers": st.one_of(st.just([]), st.just([]), st.lists(st.integers(0, 5), max_size=3, unique=True).map(sorted)),
         "hang_answers": st.one_of(st.just([]), st.just([]), st.just([]), st.lists(st.integers(0, 5), min_size=1, max_size=2, unique=True).map(sorted)),
         "node_types": st.one_of(st.just([17]), st.lists(st.sampled_from((17, 18, 18, 0, 6, 99)), min_size=1, max_size=3))}
    )


def opt_cases(tier: str):
    """Cases also executed by an interpreter started with -O (see vf/optpass.py)."""
    return drive.opt_sweep_cases(tier)


def enumerate_cases(tier: str):
    # one event of every kind under every environment dimension (transport kind, logging, warnings, a bystander gateway, registry file, ...)
    yield from drive.all_sweep_cases()
    for version in ("1.4", "2.2"):
        for ids in ([], [1, 2, 3], [0, 5, 250]):
            for listeners in (2, 3):
                yield {"kind": "concurrent", "version": version, "ids": ids, "listeners": listeners}
    req = [["rx", "255;255;3;0;3;\n"]] * 3
    for k in range(256):
        yield {"version": "2.2" if k % 2 else "1.4", "ids": [k], "install": "direct", "ops": req}
        yield {"version": "2.0" if k % 2 else "1.5", "ids": list(range(1, k + 1)), "install": "direct", "ops": req}
    for k in range(0, 256):
        yield {"version": "2.2" if k % 2 else "1.5", "ids": list(range(0, k + 1)), "install": "direct", "ops": req}
    # the gateway has not reported its version yet (every fresh start): the same rules, topped-out registries included
    for ids in ([], [5], list(range(0, 255)), [254], [3, 255], list(range(1, 255)), list(range(0, 254)), [253]):
        for mode in ("fresh", "persistent"):
            yield {"version": None, "ids": ids, "install": "direct", "ops": req, "listen_mode": mode}
    # the registry is saved / reloaded between requests (scheduled save, leaving and re-entering the gateway context)
    for version in (None, "1.4", "2.2"):
        for ids in ([], [1, 2, 5], [0, 7]):
            for between in (["save"], ["reload"], ["save"], ["save"]):
                ops = [["rx", "255;255;3;0;3;\n"], between, ["rx", "255;255;3;0;3;\n"], ["save"], ["reload"], ["rx", "255;255;3;0;3;\n"], ["rx", "9;255;0;0;17;2.0\n"], ["save"], ["rx", "255;255;3;0;3;\n"]]
                yield {"version": version, "ids": ids, "install": "direct", "ops": ops, "listen_mode": "persistent"}
    # unknown nodes talking on the ids just above the registry's maximum (2.x asks them to present themselves), then requests
    for version in ("1.5", "2.0", "2.2"):
        for top in (0, 5, 251, 252, 253):
            for strangers in ([top + 1], [top + 1, top + 2], [254], [255], [254, 255]):
                ops = [["rx", f"{n};1;0;0;6;child\n"] for n in strangers if n <= 255] + [["rx", "255;255;3;0;3;\n"]] * 3
                yield {"version": version, "ids": list(range(1, top + 1)), "install": "direct", "ops": ops, "listen_mode": "persistent"}
    # registries whose highest ids belong to repeaters (type 18) or to nodes of odd types
    for version in ("1.4", "2.0", "2.2"):
        for install in ("direct", "presented"):
            for ids, types in (([0, 1, 2], [18, 17, 18]), ([1, 2, 3], [17, 17, 18]), ([5], [18]), ([1, 250], [17, 0]), ([1, 2, 3, 4], [18]), ([0, 7], [18, 99])):
                yield {"version": version, "ids": ids, "install": install, "ops": req, "node_types": types, "listen_mode": "fresh"}
    # the request carries a number in its payload (a node suggesting an id?): allocation does not depend on it
    for version in (None, "1.5", "2.2"):
        for ids in ([1, 2, 7], list(range(1, 255)), [0, 254], []):
            for text in ("7", "1", "254", "255", "0", "2", "300", "-1", "007"):
                ops = [["rx", f"255;255;3;0;3;{text}\n"], ["rx", f"255;255;3;1;3;{text}\n"], ["rx", "255;255;3;0;3;\n"]]
                yield {"version": version, "ids": ids, "install": "direct", "ops": ops, "listen_mode": "fresh"}
    # two gateways in one process: while one's answer is still being written, the other allocates from its own registry
    for version in ("1.4", "2.2"):
        for ids_a, ids_b in (([*range(1, 254)], [1, 2]), ([*range(0, 254)], []), ([5], [*range(1, 250)]), ([*range(1, 253)], [*range(1, 253)])):
            yield {"kind": "two-gateways", "version": version, "ids_a": ids_a, "ids_b": ids_b}
    # between two requests: one event of every kind (traffic of the new node, of others, of the gateway; flags; sessions) - ids stay taken
    events = [["rx", "0;255;3;0;14;Gateway startup complete.\n"], ["rx", "0;255;3;0;9;log\n"], ["rx", "0;255;3;0;2;2.2.0\n"], ["rx", "0;255;3;0;2;1.5.1\n"], ["rx", "0;255;0;0;18;2.1.1\n"],
              ["rx", "0;255;3;0;18;\n"], ["rx", "0;255;3;0;6;0\n"], ["session"], ["save"], ["reload"], ["tick", 90000], ["read_error", "failed"]]
    for version in (None, "1.5", "2.0", "2.2"):
        for event in events:
            ops = [["rx", "255;255;3;0;3;\n"], event, ["rx", "255;255;3;0;3;\n"], event, ["rx", "255;255;3;0;3;\n"]]
            yield {"version": version, "ids": [1, 2], "install": "direct", "ops": ops, "listen_mode": "persistent"}
        # the new node presents itself, is flagged for reboot by the application, reports a value (the reboot command goes out): still registered
        ops = [["rx", "255;255;3;0;3;\n"], ["rx", "3;255;0;0;17;2.0\n"], ["rx", "3;1;0;0;6;c\n"], ["flag", 3, "reboot", True], ["rx", "3;1;1;0;0;5\n"], ["rx", "255;255;3;0;3;\n"],
               ["rx", "3;1;1;0;0;6\n"], ["rx", "255;255;3;0;3;\n"]]
        yield {"version": version, "ids": [1, 2], "install": "direct", "ops": ops, "listen_mode": "fresh"}
    # the answer's write stalls after the bytes went out and the listener is cancelled by the application's timeout
    for version in (None, "1.4", "2.2"):
        for hangs in ([0], [1], [0, 1]):
            for mode in ("fresh", "persistent"):
                yield {"version": version, "ids": [1, 2], "install": "direct", "ops": [["rx", "255;255;3;0;3;\n"]] * 4, "listen_mode": mode, "hang_answers": hangs}
    # the registry shrinks outside the handlers (nodes decommissioned by the application) after the top of the range was reached
    for version in ("1.4", "2.2"):
        for keep in (0, 1, 100, 249):
            ops = [["rx", "255;255;3;0;3;\n"]] * 2 + [["remove", i] for i in range(keep + 1, 255)] + [["rx", "255;255;3;0;3;\n"]] * 2
            yield {"version": version, "ids": list(range(0, 253)), "install": "direct", "ops": ops, "listen_mode": "fresh"}
    # time passes between requests (seconds to months): an id handed out stays handed out
    for version in (None, "1.4", "2.2"):
        for gap in (1, 601, 3601, 86401, 10**7):
            ops = [["rx", "255;255;3;0;3;\n"], ["tick", gap], ["rx", "255;255;3;0;3;\n"], ["tick", gap], ["rx", "7;255;0;0;17;2.0\n"], ["rx", "255;255;3;0;3;\n"], ["tick", gap], ["rx", "255;255;3;0;3;\n"]]
            yield {"version": version, "ids": [1], "install": "direct", "ops": ops, "listen_mode": "fresh"}
    for k in (250, 252, 253, 254):
        # nearly full registries without the gateway node 0, filled to the brim by requests
        yield {"version": "2.1", "ids": list(range(1, k + 1)), "install": "direct", "ops": [["rx", "255;255;3;0;3;\n"]] * (256 - k)}
        yield {"version": "1.4", "ids": [i for i in range(0, 255) if i != k - 100], "install": "direct", "ops": req}


def _wire_ids(transport) -> list[int]:
    """Ids in the answers put on the wire, in order; an id the application removed from the registry since is free again."""
    out = []
    forgotten = getattr(transport, "forgotten", [])
    for pos, line in enumerate(getattr(transport, "wire", [])):
        match = drive.IDRESP.match(line)
        if match:
            new_id = int(match.group(3))
            if any(at > pos and node_id == new_id for at, node_id in forgotten):
                continue  # handed out, then decommissioned by the application: handing it out again is fine
            out.append(new_id)
    return out


def _run_concurrent(case: dict) -> Outcome:
    """Two consumers of listen() each handle an id request at the same time (persistence configured): ids must differ."""
    import asyncio
    import os
    import shutil
    import tempfile

    from aiomysensors.gateway import Config, Gateway

    from vf.props import c13

    scratch = tempfile.mkdtemp(prefix="vf-c11-", dir=c13.SCRATCH_BASE)

    async def go() -> Outcome | None:
        transport = env.RecordingTransport()
        gateway = Gateway(transport, Config(persistence_file=os.path.join(scratch, "p.json")))
        gateway.protocol_version = case["version"]
        env.install_registry(gateway.nodes, {str(i): {} for i in case["ids"]})
        transport.inbox.extend(["255;255;3;0;3;\n"] * case["listeners"])

        async def consume():
            return await env.send_nothing_and_listen(gateway)

        results = await asyncio.gather(*(consume() for _ in range(case["listeners"])))
        wire = _wire_ids(transport)
        if any(status == "leak" for status, _v in results):
            bad = next(v for s, v in results if s == "leak")
            return fail(f"leak:{env.exc_sig(bad)}", f"concurrent id requests: {bad!r}")
        dup = {i for i in wire if wire.count(i) > 1}
        if dup:
            return fail("id-handed-out-twice", f"{case['listeners']} concurrent id requests received ids {wire}")
        if any(i in case["ids"] for i in wire):
            return fail("id-not-fresh", f"concurrent id requests received {wire}, registry held {case['ids']}")
        return None

    try:
        bad = env.run(go())
    finally:
        shutil.rmtree(scratch, ignore_errors=True)
    classes = ("concurrent-listeners",)
    if bad is not None:
        bad.classes = classes
        return bad
    return Outcome(ok=True, nontrivial=True, classes=classes)


def _run_two_gateways(case: dict) -> Outcome:
    """Gateway A's id answer is held in its transport's write while gateway B (another network, same process) gets a request."""
    import asyncio

    classes = ("two-gateways", f"version={case['version']}")

    class Held(env.RecordingTransport):
        def __init__(self) -> None:
            super().__init__()
            self.gate: asyncio.Event | None = None
            self.entered = asyncio.Event()

        async def write(self, decoded_message: str) -> None:
            if self.gate is not None and drive.IDRESP.match(decoded_message):
                self.entered.set()
                await self.gate.wait()
            await super().write(decoded_message)

    async def go() -> Outcome | None:
        held = Held()
        held.gate = asyncio.Event()
        gw_a, _ = env.make_gateway(case["version"], transport=held)
        gw_b, t_b = env.make_gateway(case["version"])
        env.install_registry(gw_a.nodes, {str(i): {} for i in case["ids_a"]})
        env.install_registry(gw_b.nodes, {str(i): {} for i in case["ids_b"]})
        task_a = asyncio.ensure_future(env.rx(gw_a, "255;255;3;0;3;\n"))
        try:
            await asyncio.wait_for(held.entered.wait(), 5)
            a_holding = True
        except asyncio.TimeoutError:
            a_holding = False  # (A had nothing to hand out: its request failed or wrote nothing)
        before = set(gw_b.nodes)
        status, value = await env.rx(gw_b, "255;255;3;0;3;\n")
        held.gate.set()
        await task_a
        highest = max(before) if before else 0
        answers = [drive.IDRESP.match(w) for _s, w in t_b.writes]
        answers = [int(m.group(3)) for m in answers if m]
        where = f"gateway B (registry {sorted(before)[:4]}{'...' if len(before) > 4 else ''}, highest {highest}) while gateway A's answer was {'in flight' if a_holding else 'not pending'}"
        if status == "leak":
            return fail(f"leak:{env.exc_sig(value)}", f"{where}: {value!r}")
        if status == "liberr":
            if highest + 1 <= 254:
                return fail("id-refused-while-free", f"{where}: {value!r} although id {highest + 1} is free")
            return None
        if len(answers) != 1 or not 1 <= answers[0] <= 254 or answers[0] in before or answers[0] not in gw_b.nodes:
            return fail("two-gateways:bad-answer", f"{where}: answers {answers!r}")
        return None

    bad = env.run(go())
    if bad is not None:
        bad.classes = classes
        return bad
    return Outcome(ok=True, nontrivial=True, classes=classes)


def run_case(case: dict) -> Outcome:
    if case.get("kind") == "envsweep":
        return drive.run_env_case(case, ASPECTS)
    if case.get("kind") == "two-gateways":
        return _run_two_gateways(case)
    if case.get("kind") == "concurrent":
        return _run_concurrent(case)
    ids = sorted(set(case["ids"]))
    ops = list(case["ops"])
    hist = {"version": case["version"], "ops": ops, "listen_mode": case.get("listen_mode", "fresh"), "debug_log": case.get("debug_log", False)}
    if case["install"] == "presented":
        types = case.get("node_types") or [17]
        hist["registry"] = {}
        hist["ops"] = [["rx", f"{i};255;0;0;{types[k % len(types)]};2.0\n"] for k, i in enumerate(ids)] + ops
    else:
        # node types vary (ordinary node, repeater, odd values restored from a file): an id is taken whatever sits on it
        types = case.get("node_types") or [17]
        hist["registry"] = {str(i): {"node_type": types[k % len(types)]} for k, i in enumerate(ids)}
    fail_answers = set(case.get("fail_answers", []))
    state = {"answers": 0}

    def setup(gateway, transport, model):
        transport.fail_after_record = True  # the answer reaches the wire, then the write raises (a drain() that fails)

        def fail_pred(line: str) -> bool:
            if not drive.IDRESP.match(line):
                return False
            state["answers"] += 1
            return state["answers"] - 1 in fail_answers

        transport.fail_pred = fail_pred
        hang_answers = set(case.get("hang_answers", []))
        if hang_answers:
            def hang_pred(line: str) -> bool:
                # the answer is put on the wire, then the write stalls (drain on a stuck link) until the application's
                # receive timeout cancels the listener: the node has its id all the same
                if not drive.IDRESP.match(line) or state["answers"] not in hang_answers:
                    return False
                state["answers"] += 1
                transport.wire = getattr(transport, "wire", []) + [line]
                return True

            transport.hang_pred = hang_pred

    def fault_step(rec, model):
        # the id went out on the wire although the write raised: from the node's point of view it was handed out
        sent = [int(drive.IDRESP.match(l).group(3)) for _s, l, failed in rec.attempts if failed and drive.IDRESP.match(l)]
        for new_id in sent:
            if str(new_id) in model.nodes:
                return ("id-not-fresh", f"id {new_id} was put on the wire although it is in the registry")
            model.nodes[str(new_id)] = __import__("vf.model", fromlist=["new_node"]).new_node(new_id)
            snap = rec.after.get(str(new_id))
            if snap is None:
                state.setdefault("burned", set()).add(new_id)
                del model.nodes[str(new_id)]
            else:
                model.nodes[str(new_id)]["node_type"] = snap["node_type"]
                model.nodes[str(new_id)]["protocol_version"] = snap["protocol_version"]
        return None

    def after_step(rec, gateway, transport, model):
        wire = _wire_ids(transport)
        dup = {i for i in wire if wire.count(i) > 1}
        if dup:
            return ("id-handed-out-twice", f"ids {sorted(dup)} appear twice among the answers put on the wire: {wire}")
        return None

    if case.get("hang_answers"):
        from vf.vloop import run_virtual

        hist["rx_timeout"] = 30
        (bad, info), _loop = run_virtual(lambda: drive.run_history(hist, ASPECTS, hooks={"setup": setup, "fault_step": fault_step, "after_step": after_step}))
    else:
        bad, info = env.run(drive.run_history(hist, ASPECTS, hooks={"setup": setup, "fault_step": fault_step, "after_step": after_step}))
    if bad is None:
        wire = _wire_ids(info["gateway"].transport)
        dup = {i for i in wire if wire.count(i) > 1}
        if dup:
            bad = __import__("vf.runner", fromlist=["fail"]).fail("id-handed-out-twice", f"ids {sorted(dup)} appear twice among the answers put on the wire: {wire}")
    sparse = bool(ids) and len(ids) != max(ids)
    boundary = any(i >= 253 for i in ids)
    classes = tuple(k for k in sorted(info["classes"]) if k.startswith("id-request")) + (
        f"install={case['install']}", "sparse" if sparse else "dense-or-empty", "boundary" if boundary else "no-boundary")
    if bad is not None:
        bad.classes = classes
        return bad
    return Outcome(ok=True, nontrivial=sparse or boundary, classes=classes)
