"""Hypothesis strategies shared by the property modules. All cases are JSON-able."""

from __future__ import annotations

from hypothesis import strategies as st

from vf.codec_ref import LINE_TERMINATORS, VERSIONS

versions = st.sampled_from(VERSIONS)
versions2 = st.sampled_from(("2.0", "2.1", "2.2"))
# release strings a real gateway reports, pinned through the public setter (same rules as their major.minor)
versions_any = st.sampled_from(VERSIONS + VERSIONS + ("2.2.0", "2.3.2", "2.1.1", "2.0.0", "1.5.1", "1.4.2", "2.4", "3.0.0", "1.0"))

BOUNDARY_IDS = (0, 1, 9, 10, 99, 100, 254, 255)
node_ids = st.one_of(st.sampled_from(BOUNDARY_IDS), st.integers(0, 255))
child_ids_any = st.one_of(st.sampled_from(BOUNDARY_IDS), st.integers(0, 255))
child_ids_sensor = st.one_of(st.sampled_from((0, 1, 9, 10, 99, 100, 253, 254)), st.integers(0, 254))
acks = st.sampled_from((0, 1))

BIG_TYPES = (2**31 - 1, 2**31, 2**63, 10**30, -1, -2, -(2**31), -(10**30))
any_types = st.one_of(
    st.integers(0, 60),
    st.sampled_from((0, 1, 14, 15, 17, 18, 28, 29, 33, 34, 5, 6, 56, 57)),
    st.sampled_from(BIG_TYPES),
    st.integers(-(10**12), 10**12),
)

_text_alphabet = st.characters(exclude_characters=LINE_TERMINATORS, exclude_categories=("Cs",))

DELIM_PAYLOADS = ("lat;lon;alt", ";", "a;;b", ";x", "55.7;12.5;3", "x;", ";;", "1;2;3;4;5;6;7",
                  # payloads that look like a message header themselves
                  "12;7;1;0;3;9", "0;0;0;0;0;", "rgb 255;128;0;1;17;", "1;255;3;0;9;x", "255;255;3;0;3;", "\"quoted\";\"x\"", "\"")
PLAIN_PAYLOADS = ("", "0", "1", "57", "20.0", "-3", " leading", "a b", "åäö", "日本", "M", "2.2.0", "abc\x00", "\x00", "\x00x", "\ufeffbom", "x\ufeff", "\ttab", "²", "a\x7f", "C:\\new\\data.txt", "\\n", "a\\nb", "\\r\\n", "\\t", "\\\\", "%0A", "&#10;", "\\u000a")


def _clean(text: str) -> str:
    # payload domain of C01: no line terminators (excluded by the alphabet) and no trailing whitespace
    return text.rstrip()


payloads = st.one_of(
    st.sampled_from(PLAIN_PAYLOADS),
    st.sampled_from(DELIM_PAYLOADS),
    st.text(_text_alphabet, max_size=24).map(_clean),
    st.text(st.sampled_from("01;9 .-aZé"), max_size=12).map(_clean),
    st.text(_text_alphabet, min_size=25, max_size=200).map(_clean),
)

LONG_PAYLOADS = ("12345678901234567890123456", "é" * 20, "40.741894,-73.989311,12;more;fields;follow", "L" * 51, "x" * 300)
short_payloads = st.one_of(
    st.sampled_from(("", "0", "7", "x;y", "20.5")),
    st.sampled_from(("", "0", "7", "x;y", "20.5")),
    st.text(st.sampled_from("01;a é"), max_size=5).map(_clean),
    st.sampled_from(LONG_PAYLOADS),
)


@st.composite
def wellformed_message(draw) -> list:
    """[node, child, command, ack, type, payload] obeying the cross-field rules by construction."""
    kind = draw(st.sampled_from(("presentation", "presentation_node", "set", "req", "internal", "idreq", "stream")))
    node = draw(node_ids)
    ack = draw(acks)
    payload = draw(payloads)
    if kind == "presentation":
        return [node, draw(child_ids_sensor), 0, ack, draw(any_types), payload]
    if kind == "presentation_node":
        return [node, 255, 0, ack, draw(any_types), payload]
    if kind == "set":
        return [node, draw(child_ids_sensor), 1, ack, draw(any_types), payload]
    if kind == "req":
        return [node, draw(child_ids_sensor), 2, ack, draw(any_types), payload]
    if kind == "internal":
        return [node, 255, 3, ack, draw(any_types), payload]
    if kind == "idreq":
        return [node, draw(child_ids_any), 3, ack, draw(st.sampled_from((3, 4))), payload]
    return [node, 255, 4, ack, draw(any_types), payload]


def line_of(msg: list) -> str:
    return ";".join(str(x) for x in msg[:5]) + ";" + msg[5] + "\n"


def weighted(*pairs):
    """Choose among strategies with explicit integer weights.

    (st.one_of flattens nested one_of/mapped one_of strategies, so repeating a branch does not give it more weight.)
    """
    table = [idx for idx, (weight, _strategy) in enumerate(pairs) for _ in range(weight)]
    strategies = [strategy for _weight, strategy in pairs]

    @st.composite
    def pick(draw):
        return draw(strategies[draw(st.sampled_from(table))])

    return pick()


def _set_ack(pair):
    line, flag = pair
    if not flag:
        return line
    parts = line.split(";", 5)
    if len(parts) == 6 and parts[3] == "0":
        parts[3] = "1"
        return ";".join(parts)
    return line


def with_ack(lines):
    """Received lines with the ack flag set now and then (handlers must not care)."""
    return st.tuples(lines, st.sampled_from((0, 0, 0, 1))).map(_set_ack)


TEMPLATE_TEXT = ("{}", "{0}", "{x}", "{input}", "{", "}", "{{", "%s", "%(input)s", "%d", "%")
OUT_OF_DOMAIN = ("256", "-1", "a", "", "99999999999999999999", "6")


def template_pair_lines() -> list[str]:
    """Lines malformed in TWO header fields at once: text that looks like a format template in one, a value outside the field's domain in another
    (an error message assembled from one field and formatted with another only goes wrong on such pairs). Every ordered pair of header positions."""
    out = []
    base = ["1", "0", "1", "0", "0", "20.5"]
    for tpos in range(5):
        for opos in range(5):
            if tpos == opos:
                continue
            for template in TEMPLATE_TEXT:
                for odd in OUT_OF_DOMAIN:
                    fields = list(base)
                    fields[tpos], fields[opos] = template, odd
                    out.append(";".join(fields) + "\n")
    return out
