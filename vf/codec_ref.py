"""Reference codec written from the statements of C01/C02, not from the implementation.

Spec tables (MySensors serial API) are spelled out here so that the repository's
enums are never the oracle.
"""

from __future__ import annotations

import re

VERSIONS = ("1.4", "1.5", "2.0", "2.1", "2.2")

# highest internal type number per protocol (tables are dense from 0)
INTERNAL_MAX = {"1.4": 14, "1.5": 17, "2.0": 28, "2.1": 28, "2.2": 33}
STREAM_MAX = {v: 5 for v in VERSIONS}

CMD_PRESENTATION, CMD_SET, CMD_REQ, CMD_INTERNAL, CMD_STREAM = range(5)
SYSTEM_CHILD = 255

I_BATTERY, I_TIME, I_VERSION, I_ID_REQUEST, I_ID_RESPONSE = 0, 1, 2, 3, 4
I_CONFIG, I_LOG, I_SKETCH_NAME, I_SKETCH_VERSION, I_REBOOT, I_GATEWAY_READY = 6, 9, 11, 12, 13, 14
I_PRESENTATION, I_DISCOVER, I_DISCOVER_RESPONSE, I_HEARTBEAT_RESPONSE = 19, 20, 21, 22
I_PRE_SLEEP = 32

_CANON = re.compile(r"-?(0|[1-9][0-9]*)\Z", re.ASCII)
# the ten terminators str.splitlines honours
LINE_TERMINATORS = "\n\r\x0b\x0c\x1c\x1d\x1e\x85\u2028\u2029"


def ref_format(node: int, child: int, command: int, ack: int, mtype: int, payload: str) -> str:
    """The one encoded form the statement of C01 allows."""
    return f"{node};{child};{command};{ack};{mtype};{payload}\n"


def classify_numeric(text: str) -> tuple[str, int | None]:
    """Return (class, value): canonical / grey (int() parses, odd spelling) / nonint."""
    if _CANON.match(text) and text != "-0":
        if len(text) > 4000:
            return "huge", None  # beyond the interpreter's int<->str limit: an integer, but far outside every range
        return "canonical", int(text)
    try:
        value = int(text)
    except ValueError:
        return "nonint", None
    return "grey", value


def cross_field_ok(child: int, command: int, mtype: int) -> tuple[bool, str]:
    """Cross-field rules of C02."""
    if command in (CMD_INTERNAL, CMD_STREAM) and child != SYSTEM_CHILD:
        if not (command == CMD_INTERNAL and mtype in (I_ID_REQUEST, I_ID_RESPONSE)):
            return False, "system-command-needs-child-255"
    if child == SYSTEM_CHILD and command in (CMD_SET, CMD_REQ):
        return False, "child-255-never-set-req"
    return True, "ok"


def ref_verdict(line: str) -> dict:
    """Decide a received line per C02.

    Returns {"verdict": accept|reject|dontcare, "rule": ..., "values": [5 ints] or None,
             "rest": text after the fifth ';' of the unstripped line}.
    `dontcare` is used when a numeric field has a non-canonical spelling that Python's
    int() nevertheless parses (padding, '+', '_', other scripts' digits, '-0').
    """
    stripped = line.rstrip()
    fields = stripped.split(";")
    if len(fields) < 6:
        return {"verdict": "reject", "rule": f"fields={len(fields)}", "values": None, "rest": None}
    grey = False
    values: list[int] = []
    for pos, text in enumerate(fields[:5]):
        cls, val = classify_numeric(text)
        if cls == "nonint":
            return {"verdict": "reject", "rule": f"nonint@{pos}", "values": None, "rest": None}
        if cls == "huge":
            if pos < 4:
                return {"verdict": "reject", "rule": f"range@{pos}", "values": None, "rest": None}
            grey = True  # a type number of thousands of digits: accepting or rejecting is not demanded
        if cls == "grey":
            grey = True
        values.append(val)  # type: ignore[arg-type]
    node, child, command, ack, mtype = values
    if mtype is None:
        mtype = 10**9
    rule = "ok"
    if not 0 <= node <= 255:
        rule = "node-range"
    elif not 0 <= child <= 255:
        rule = "child-range"
    elif not 0 <= command <= 4:
        rule = "command-range"
    elif ack not in (0, 1):
        rule = "ack-range"
    else:
        good, why = cross_field_ok(child, command, mtype)
        if not good:
            rule = why
    rest = line.split(";", 5)[5]
    verdict = "accept" if rule == "ok" else "reject"
    if grey:
        verdict = "dontcare"
    return {"verdict": verdict, "rule": rule, "values": values, "rest": rest, "grey": grey}


def payload_matches(rest: str, decoded: str) -> bool:
    """Literal decode of the payload, tolerant about which trailing whitespace is kept."""
    return isinstance(decoded, str) and rest.rstrip() == decoded.rstrip() and rest.startswith(decoded)


def internal_supported(version: str, mtype: int) -> bool:
    return 0 <= mtype <= INTERNAL_MAX[version]


def stream_supported(version: str, mtype: int) -> bool:
    return 0 <= mtype <= STREAM_MAX[version]


def ref_protocol(version_text: str) -> str | None:
    """Newest supported protocol whose major.minor <= reported; None when not a release string."""
    parts = version_text.split(".")
    if not 2 <= len(parts) <= 4:
        return None
    try:
        nums = [int(p) for p in parts]
    except ValueError:
        return None
    if any(not re.fullmatch(r"[0-9]+", p) for p in parts):
        return None
    pair = (nums[0], nums[1])
    best = "1.4"
    for cand in VERSIONS:
        cmaj, cmin = (int(x) for x in cand.split("."))
        if (cmaj, cmin) <= pair:
            best = cand
    return best


def plain_int(text: str) -> bool:
    """True for a plain ASCII decimal integer of sane length (what harness code may safely int())."""
    return bool(_CANON.match(text)) and len(text) < 100
