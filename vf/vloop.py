"""Deterministic virtual-time event loop with an inline executor (DESIGN 4.16)."""

from __future__ import annotations

import asyncio
import concurrent.futures
import heapq


class Deadlock(Exception):
    """The loop has nothing ready and no timer: it would block forever."""


class InlineExecutor(concurrent.futures.ThreadPoolExecutor):
    """Runs submitted calls synchronously; completion still costs one loop iteration."""

    def __init__(self) -> None:
        super().__init__(max_workers=1)

    def submit(self, fn, /, *args, **kwargs):  # type: ignore[override]
        fut: concurrent.futures.Future = concurrent.futures.Future()
        try:
            fut.set_result(fn(*args, **kwargs))
        except BaseException as err:  # noqa: BLE001
            fut.set_exception(err)
        return fut


class VirtualLoop(asyncio.SelectorEventLoop):
    """time() is a counter that jumps to the next timer whenever the loop would block."""

    def __init__(self) -> None:
        super().__init__()
        self._vtime = 0.0
        self.iterations = 0
        self.set_default_executor(InlineExecutor())

    def time(self) -> float:
        return self._vtime

    MAX_VIRTUAL_SECONDS = 5.0e7  # ~19 months: no history in this harness lasts that long; a runaway (a timer loop that keeps an
    # otherwise stuck case alive for ever) is reported as a deadlock instead of spinning

    def _run_once(self) -> None:  # type: ignore[override]
        self.iterations += 1
        if self._vtime > self.MAX_VIRTUAL_SECONDS and not self._stopping:
            raise Deadlock
        if not self._ready:
            while self._scheduled and self._scheduled[0]._cancelled:
                handle = heapq.heappop(self._scheduled)
                handle._scheduled = False
                self._timer_cancelled_count = max(self._timer_cancelled_count - 1, 0)
            if self._scheduled:
                when = self._scheduled[0]._when
                if when > self._vtime:
                    self._vtime = when
            elif not self._stopping:
                # nothing can ever happen again (no threads, no I/O in this harness)
                # give pending self-pipe wakeups (call_soon_threadsafe) one chance
                event_list = self._selector.select(0)
                self._process_events(event_list)
                if not self._ready:
                    raise Deadlock
        super()._run_once()


def run_virtual(coro_factory):
    """Run coro_factory() to completion on a fresh VirtualLoop; returns (result, loop)."""
    loop = VirtualLoop()
    from vf import env as _env

    if _env.EAGER_TASKS[0]:
        loop.set_task_factory(asyncio.eager_task_factory)  # (see env.eager_tasks)
    asyncio.set_event_loop(loop)
    try:
        return loop.run_until_complete(coro_factory()), loop
    finally:
        try:
            pending = [t for t in asyncio.all_tasks(loop) if not t.done()]
            for task in pending:
                task.cancel()
            if pending:
                try:
                    loop.run_until_complete(asyncio.gather(*pending, return_exceptions=True))
                except BaseException:  # noqa: BLE001
                    pass
        finally:
            asyncio.set_event_loop(None)
            loop.close()
